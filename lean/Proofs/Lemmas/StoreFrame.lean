/-
  Proofs/Lemmas/StoreFrame.lean — the strategy layer never writes the candle store (for C07): every function of the
  strategy layer (hooks of an ARBITRARY user strategy included), order execution with its position hooks, the pending
  MARKET-order queue, a whole strategy step, termination and the per-iteration route step leave `Engine.stores`
  exactly as they found it.  Same proof skeleton as Proofs/Lemmas/Frame.lean / FrameRun.lean (one lemma per function),
  for the relation "same stores".
-/
import Jesse.Engine

namespace StoreFrame
open Jesse Jesse.Eng Jesse.Gen Jesse.Acc

variable {M : Type}

/-- same candle stores, same configuration -/
def SSame (e e' : Engine M) : Prop := e'.stores = e.stores ∧ e'.cfg = e.cfg

theorem SSame.refl (e : Engine M) : SSame e e := ⟨rfl, rfl⟩
theorem SSame.trans {a b c : Engine M} (h1 : SSame a b) (h2 : SSame b c) : SSame a c :=
  ⟨h2.1.trans h1.1, h2.2.trans h1.2⟩
theorem SSame.of_w {e e' : Engine M} (h : e'.stores = e.stores ∧ e'.cfg = e.cfg) : SSame e e' := h

theorem logE_ss (e : Engine M) (ev : Event) : SSame e (logE e ev) := SSame.of_w ⟨rfl, rfl⟩
theorem fail_ss (e : Engine M) (k : Err) : SSame e (fail e k) := by
  unfold fail; split <;> exact SSame.of_w ⟨rfl, rfl⟩
theorem setStrat_ss (e : Engine M) (r : Nat) (f : StratState M → StratState M) : SSame e (setStrat e r f) := SSame.of_w ⟨rfl, rfl⟩

theorem foldl_ss {α} (g : Engine M → α → Engine M) (hg : ∀ e x, SSame e (g e x)) (l : List α) (e : Engine M) :
    SSame e (l.foldl g e) := by
  induction l generalizing e with
  | nil => exact SSame.refl _
  | cons x xs ih => exact SSame.trans (hg e x) (ih (g e x))

theorem createOrder_ss (e : Engine M) (sym : Nat) (a : ApiCall) (via : Option Via) : SSame e (createOrder e sym a via) := by
  unfold createOrder
  split
  · exact SSame.refl _
  · split
    · rename_i k w' h
      exact SSame.trans (show SSame e { e with w := w' } from ⟨rfl, rfl⟩) (fail_ss _ _)
    · rename_i w' h
      exact SSame.trans (show SSame e { e with w := w', via := e.via ++ [via], storage := upd e.storage sym (fun x => x ++ [e.w.orders.length]),
                                                 toExecute := if a.type = .market then e.toExecute ++ [e.w.orders.length] else e.toExecute }
                        from ⟨rfl, rfl⟩) (logE_ss _ _)

theorem brokerSubmit_ss (e : Engine M) (sym : Nat) (r : Except Err ApiCall) (via : Option Via) :
    SSame e (brokerSubmit e sym r via) := by
  unfold brokerSubmit
  split
  · exact SSame.refl _
  · split
    · exact fail_ss _ _
    · exact createOrder_ss _ _ _ _

theorem cancelOrder_ss (e : Engine M) (id : Nat) : SSame e (cancelOrder e id) := by
  unfold cancelOrder
  split
  · exact SSame.trans (show SSame e { e with w := Acc.cancel e.w id } from ⟨rfl, rfl⟩) (logE_ss _ _)
  · exact SSame.refl _

section strategy
variable [Inhabited M] (u : UserStrategy M)

theorem submitEntries_ss (e : Engine M) (r : Nat) (buy : Bool) (rows : Rows) : SSame e (submitEntries e r buy rows) := by
  unfold submitEntries
  apply foldl_ss
  intro e' row
  dsimp only
  split
  · exact SSame.refl _
  · exact brokerSubmit_ss _ _ _ _

theorem resubmitExits_ss (e : Engine M) (r : Nat) (isStop : Bool) (rows : Rows) : SSame e (resubmitExits e r isStop rows) := by
  unfold resubmitExits
  dsimp only
  refine SSame.trans (foldl_ss _ ?_ _ _) (foldl_ss _ ?_ _ _)
  · intro e' id
    repeat' split
    all_goals first | exact cancelOrder_ss _ _ | exact SSame.refl _
  · intro e' row
    split
    · exact SSame.refl _
    · split
      · exact SSame.refl _
      · exact brokerSubmit_ss _ _ _ _

theorem runHook_ss (e : Engine M) (r : Nat) (name : String) (h : M → Decl → M × Decl) : SSame e (runHook e r name h) := by
  unfold runHook
  split
  · exact SSame.refl _
  · exact SSame.trans (setStrat_ss _ _ _) (logE_ss _ _)

theorem resetStrategy_ss (e : Engine M) (r : Nat) : SSame e (resetStrategy e r) := ⟨rfl, rfl⟩

end strategy

section strategy2
variable [Inhabited M] (u : UserStrategy M)

theorem dmEntries_ss (e : Engine M) (r : Nat) : SSame e (dmEntries e r) := by
  unfold dmEntries
  dsimp only
  have key : ∀ (b : Bool) (rows : Rows) (f : StratState M → StratState M),
      SSame e (submitEntries ((entryOrders (setStrat e r f) (routeOf e r).sym).foldl (fun e id => cancelOrder e id) (setStrat e r f)) r b rows) :=
    fun b rows f => SSame.trans (SSame.trans (setStrat_ss e r f) (foldl_ss _ (fun e' id => cancelOrder_ss e' id) _ _))
      (submitEntries_ss _ _ _ _)
  split
  · split
    · exact fail_ss _ _
    · split
      · exact key _ _ _
      · exact setStrat_ss _ _ _
  · split
    · exact fail_ss _ _
    · split
      · exact key _ _ _
      · exact setStrat_ss _ _ _

theorem dmStop_ss (e : Engine M) (r : Nat) : SSame e (dmStop e r) := by
  unfold dmStop
  dsimp only
  split
  · split
    · exact fail_ss _ _
    · split
      · exact SSame.trans (setStrat_ss _ _ _) (resubmitExits_ss _ _ _ _)
      · exact SSame.refl _
  · exact SSame.refl _

theorem dmTake_ss (e : Engine M) (r : Nat) : SSame e (dmTake e r) := by
  unfold dmTake
  dsimp only
  split
  · split
    · exact fail_ss _ _
    · split
      · exact SSame.trans (setStrat_ss _ _ _) (resubmitExits_ss _ _ _ _)
      · exact SSame.refl _
  · exact SSame.refl _

theorem detectModifications_ss (e : Engine M) (r : Nat) : SSame e (detectModifications e r) := by
  unfold detectModifications
  dsimp only
  have h1 := dmEntries_ss e r
  have h2 := SSame.trans h1 (dmStop_ss (dmEntries e r) r)
  have h3 := SSame.trans h2 (dmTake_ss (dmStop (dmEntries e r) r) r)
  split
  · exact SSame.refl _
  · split
    · exact SSame.refl _
    · split
      · exact h1
      · split
        · exact h2
        · split
          · exact h3
          · split
            · exact SSame.trans h3 (fail_ss _ _)
            · exact h3

theorem broadcast_ss (e : Engine M) (r : Nat) : SSame e (broadcast e r) := by
  unfold broadcast
  apply foldl_ss
  intro e' r'
  split
  · exact SSame.refl _
  · exact detectModifications_ss _ _

/-- right-composition forms (the goal's shape drives the unification) -/
theorem ext_then {a b : Engine M} (f : Engine M → Engine M) (hf : ∀ x, SSame x (f x)) (h : SSame a b) : SSame a (f b) :=
  SSame.trans h (hf b)
theorem ext_same_w {a b c : Engine M} (hw : c.stores = b.stores ∧ c.cfg = b.cfg) (h : SSame a b) : SSame a c := by
  unfold SSame at *; rw [hw.1, hw.2]; exact h

theorem executeCancel_ss (e : Engine M) (r : Nat) : SSame e (executeCancel e r) := by
  unfold executeCancel
  dsimp only
  split
  · exact SSame.refl _
  · split
    · exact fail_ss _ _
    · apply ext_then (fun x => logE x _) (fun x => logE_ss x _)
      apply ext_then (fun x => broadcast x r) (fun x => broadcast_ss x r)
      apply ext_then (fun x => resetStrategy x r) (fun x => resetStrategy_ss x r)
      apply ext_same_w (b := (Acc.getD e.w.active (routeOf e r).sym).foldl (fun e id => cancelOrder e id) e) ⟨rfl, rfl⟩
      exact foldl_ss _ (fun e' id => cancelOrder_ss e' id) _ _

theorem openExitRows_ss (e : Engine M) (r : Nat) (rows : Rows) (isStop : Bool) : SSame e (openExitRows e r rows isStop) := by
  unfold openExitRows
  dsimp only
  apply foldl_ss
  intro e' row
  repeat' split
  all_goals first | exact SSame.refl _ | exact brokerSubmit_ss _ _ _ _

theorem ext_ite {a : Engine M} {c : Prop} [Decidable c] {x y : Engine M} (hx : SSame a x) (hy : SSame a y) :
    SSame a (if c then x else y) := by
  split
  · exact hx
  · exact hy

theorem onOpenPosition_ss (e : Engine M) (r oid : Nat) : SSame e (onOpenPosition u e r oid) := by
  unfold onOpenPosition
  dsimp only
  split
  · exact SSame.refl _
  · apply ext_then (fun x => detectModifications x r) (fun x => detectModifications_ss x r)
    have h0 : SSame e (broadcast (setStrat e r (fun s => { s with increased := 1 })) r) :=
      SSame.trans (setStrat_ss _ _ _) (broadcast_ss _ _)
    generalize broadcast (setStrat e r (fun s => { s with increased := 1 })) r = e0 at *
    have h1 : SSame e (if (stratOf e0 r).decl.stopLoss.isSome then openExitRows e0 r (fmt (stratOf e0 r).shadow.stopLoss) true else e0) :=
      ext_ite (SSame.trans h0 (openExitRows_ss _ _ _ _)) h0
    generalize (if (stratOf e0 r).decl.stopLoss.isSome then openExitRows e0 r (fmt (stratOf e0 r).shadow.stopLoss) true else e0) = e1 at *
    have h2 : SSame e (if (stratOf e0 r).decl.takeProfit.isSome then openExitRows e1 r (fmt (stratOf e0 r).shadow.takeProfit) false else e1) :=
      ext_ite (SSame.trans h1 (openExitRows_ss _ _ _ _)) h1
    exact SSame.trans h2 (runHook_ss _ _ _ _)

theorem onClosePosition_ss (e : Engine M) (r oid : Nat) : SSame e (onClosePosition u e r oid) := by
  unfold onClosePosition
  dsimp only
  split
  · exact SSame.refl _
  · exact SSame.trans (SSame.trans (SSame.trans (broadcast_ss _ _) (executeCancel_ss _ _)) (runHook_ss _ _ _ _))
      (detectModifications_ss _ _)

theorem onIncreasedPosition_ss (e : Engine M) (r oid : Nat) : SSame e (onIncreasedPosition u e r oid) := by
  unfold onIncreasedPosition
  dsimp only
  split
  · exact SSame.refl _
  · exact SSame.trans (SSame.trans (SSame.trans (setStrat_ss _ _ _) (broadcast_ss _ _)) (runHook_ss _ _ _ _))
      (detectModifications_ss _ _)

theorem onReducedPosition_ss (e : Engine M) (r oid : Nat) : SSame e (onReducedPosition u e r oid) := by
  unfold onReducedPosition
  dsimp only
  split
  · exact SSame.refl _
  · exact SSame.trans (SSame.trans (SSame.trans (setStrat_ss _ _ _) (broadcast_ss _ _)) (runHook_ss _ _ _ _))
      (detectModifications_ss _ _)

theorem onUpdatedPosition_ss (e : Engine M) (r oid : Nat) : SSame e (onUpdatedPosition u e r oid) := by
  unfold onUpdatedPosition
  dsimp only
  split
  · exact SSame.refl _
  · split
    · exact onOpenPosition_ss u _ _ _
    · split
      · exact onClosePosition_ss u _ _ _
      · split
        · exact onIncreasedPosition_ss u _ _ _
        · exact onReducedPosition_ss u _ _ _

theorem afterFill_ss (e1 : Engine M) (sym n id : Nat) : SSame e1 (afterFill u e1 sym n id) := by
  unfold afterFill
  dsimp only
  split
  · exact SSame.refl _
  · exact SSame.trans (ext_ite (setStrat_ss _ _ _) (SSame.refl _)) (onUpdatedPosition_ss u _ _ _)

theorem executeOrder_ss (e : Engine M) (id : Nat) : SSame e (executeOrder u e id) := by
  unfold executeOrder
  dsimp only
  have h1 : SSame e (logE { e with w := Acc.execute e.w id } (Event.fill id e.time (orderOf e id).price (orderOf e id).qty)) :=
    SSame.trans (show SSame e { e with w := Acc.execute e.w id } from ⟨rfl, rfl⟩) (logE_ss _ _)
  have h4 := SSame.trans h1 (afterFill_ss u _ (orderOf e id).sym e.w.trades.length id)
  split
  · exact SSame.refl _
  · split
    · exact SSame.refl _
    · split
      · exact h4
      · exact SSame.trans h4 (logE_ss _ _)


end strategy2

section run
variable [Inhabited M] (u : UserStrategy M)

theorem saveDaily_ss (e : Engine M) : SSame e (saveDaily e) := SSame.of_w ⟨rfl, rfl⟩

theorem pendingGo_ss (fuel : Nat) (e : Engine M) (i : Nat) : SSame e (executePendingMarketOrders.go u fuel e i) := by
  induction fuel generalizing e i with
  | zero => unfold executePendingMarketOrders.go; exact fail_ss _ _
  | succ f ih =>
    unfold executePendingMarketOrders.go
    split
    · exact SSame.refl _
    · split
      · exact SSame.of_w ⟨rfl, rfl⟩
      · exact SSame.trans (executeOrder_ss u _ _) (ih _ _)

theorem pending_ss (fuel : Nat) (e : Engine M) : SSame e (executePendingMarketOrders u fuel e) := by
  unfold executePendingMarketOrders
  split
  · exact SSame.refl _
  · exact pendingGo_ss u _ _ _

theorem entryExits_ss (e : Engine M) (r : Nat) (long spot : Bool) (d : Option Rows) (isStop : Bool) :
    SSame e (entryExits e r long spot d isStop) := by
  unfold entryExits
  split
  · split
    · exact fail_ss _ _
    · split
      · exact fail_ss _ _
      · exact setStrat_ss _ _ _
  · exact SSame.refl _

theorem executeEntry_ss (e : Engine M) (r : Nat) (long spot : Bool) : SSame e (executeEntry u e r long spot) := by
  unfold executeEntry
  cases long
  all_goals
    simp only [Bool.false_eq_true, if_false, if_true]
    have h1 := runHook_ss e r
    generalize hg : runHook e r _ _ = e1
    have h1' : SSame e e1 := by rw [← hg]; exact h1 _ _
    split
    · exact SSame.refl _
    · split
      · exact SSame.trans h1' (fail_ss _ _)
      · split
        · exact SSame.trans h1' (fail_ss _ _)
        · have h2 : ∀ f, SSame e (setStrat e1 r f) := fun f => SSame.trans h1' (setStrat_ss e1 r f)
          have h3 : ∀ f l d b, SSame e (entryExits (setStrat e1 r f) r l spot d b) := fun f l d b => SSame.trans (h2 f) (entryExits_ss _ r l spot d b)
          split
          · exact h3 _ _ _ _
          · have h4 : ∀ f l d b l' d' b', SSame e (entryExits (entryExits (setStrat e1 r f) r l spot d b) r l' spot d' b') :=
              fun f l d b l' d' b' => SSame.trans (h3 f l d b) (entryExits_ss _ r l' spot d' b')
            split
            · exact h4 _ _ _ _ _ _ _
            · exact SSame.trans (h4 _ _ _ _ _ _ _) (submitEntries_ss _ _ _ _)

theorem checkCancel_ss (e : Engine M) (r : Nat) : SSame e (checkCancel u e r) := by
  unfold checkCancel
  dsimp only
  split
  · split
    · exact SSame.trans (logE_ss _ _) (executeCancel_ss _ _)
    · exact logE_ss _ _
  · exact SSame.refl _

theorem checkUpdate_ss (e : Engine M) (r : Nat) : SSame e (checkUpdate u e r) := by
  unfold checkUpdate
  split
  · exact SSame.trans (runHook_ss _ _ _ _) (detectModifications_ss _ _)
  · exact SSame.refl _

theorem checkEntry_ss (e : Engine M) (r : Nat) (spot : Bool) : SSame e (checkEntry u e r spot) := by
  unfold checkEntry
  dsimp only
  have h4 := resetStrategy_ss e r
  generalize resetStrategy e r = e4 at *
  have h5 : ∀ ev, SSame e (logE e4 ev) := fun ev => SSame.trans h4 (logE_ss _ _)
  split
  · exact SSame.trans (h5 _) (fail_ss _ _)
  · have h6 : ∀ ev ev', SSame e (logE (logE e4 ev) ev') := fun ev ev' => SSame.trans (h5 ev) (logE_ss _ _)
    split
    · exact SSame.trans (h6 _ _) (fail_ss _ _)
    · split
      · exact SSame.trans (h6 _ _) (executeEntry_ss u _ _ _ _)
      · split
        · exact SSame.trans (h6 _ _) (executeEntry_ss u _ _ _ _)
        · exact h6 _ _

theorem check_ss (fuel : Nat) (e : Engine M) (r : Nat) : SSame e (check u fuel e r) := by
  unfold check
  dsimp only
  have h3 : SSame e (executePendingMarketOrders u fuel (checkUpdate u (checkCancel u e r) r)) :=
    SSame.trans (SSame.trans (checkCancel_ss u e r) (checkUpdate_ss u _ r)) (pending_ss u fuel _)
  generalize executePendingMarketOrders u fuel (checkUpdate u (checkCancel u e r) r) = e3 at *
  split
  · exact SSame.refl _
  · split
    · exact h3
    · split
      · exact SSame.trans h3 (checkEntry_ss u _ _ _)
      · exact h3

theorem executeStrategy_ss (fuel : Nat) (e : Engine M) (r : Nat) : SSame e (executeStrategy u fuel e r) := by
  unfold executeStrategy
  dsimp only
  have h2 : SSame e (check u fuel (beforeStep u e r) r) :=
    SSame.trans (SSame.of_w ⟨rfl, rfl⟩ : SSame e (beforeStep u e r)) (check_ss u fuel _ r)
  split
  · exact SSame.refl _
  · split
    · exact h2
    · exact SSame.trans h2 (SSame.of_w ⟨rfl, rfl⟩ : SSame _ (afterStep u _ r))


theorem terminate_ss (fuel : Nat) (e : Engine M) (r : Nat) : SSame e (terminate u fuel e r) := by
  unfold terminate
  dsimp only
  split
  · exact SSame.refl _
  · have h3 : SSame e (executePendingMarketOrders u fuel (detectModifications (runHook e r "before_terminate" (u.beforeTerminate e r)) r)) :=
      SSame.trans (runHook_ss _ _ _ _) (SSame.trans (detectModifications_ss _ _) (pending_ss u _ _))
    revert h3
    generalize executePendingMarketOrders u fuel (detectModifications (runHook e r "before_terminate" (u.beforeTerminate e r)) r) = e3
    intro h3
    split
    · exact h3
    · split
      · refine SSame.trans h3 (SSame.trans ?_ (brokerSubmit_ss _ _ _ _))
        split
        · refine SSame.trans ?_ (foldl_ss (fun e id => cancelOrder e id) (fun e id => cancelOrder_ss e id) _ _)
          exact SSame.of_w ⟨rfl, rfl⟩
        · exact SSame.refl _
      · split
        · exact SSame.trans h3 (executeCancel_ss _ _)
        · exact h3

theorem routesStep_ss (fuel : Nat) (e : Engine M) (i b : Nat) : SSame e (routesStep u fuel e i b) := by
  unfold routesStep
  dsimp only
  have h2 : SSame e (executePendingMarketOrders u fuel ((List.range e.cfg.routes.length).foldl (fun e r =>
      if e.err.isSome then e else
      { (if (routeOf e r).tf = 1 ∨ b % (routeOf e r).tf = 0 then executeStrategy u fuel e r else e) with
        w := Acc.updateActive (if (routeOf e r).tf = 1 ∨ b % (routeOf e r).tf = 0 then executeStrategy u fuel e r else e).w (routeOf e r).sym }) e)) := by
    refine SSame.trans (foldl_ss _ ?_ _ _) (pending_ss u _ _)
    intro x r
    dsimp only
    split
    · exact SSame.refl _
    · refine SSame.trans (?_ : SSame x (if (routeOf x r).tf = 1 ∨ b % (routeOf x r).tf = 0 then executeStrategy u fuel x r else x)) (SSame.of_w ⟨rfl, rfl⟩)
      split
      · exact executeStrategy_ss u _ _ _
      · exact SSame.refl _
  split
  · exact SSame.trans h2 (saveDaily_ss _)
  · exact h2

theorem finishRun_ss (fuel : Nat) (e : Engine M) : SSame e (finishRun u fuel e) := by
  unfold finishRun
  dsimp only
  have h1 : SSame e ((List.range e.cfg.routes.length).foldl (fun e r => executePendingMarketOrders u fuel (terminate u fuel e r)) e) :=
    foldl_ss _ (fun x r => SSame.trans (terminate_ss u fuel x r) (pending_ss u _ _)) _ _
  split
  · exact h1
  · exact SSame.trans h1 (saveDaily_ss _)


end run

end StoreFrame

/-! ### what `_update_all_routes_a_partial_candle` does to the store of its symbol (bridge to the store protocol of C07) -/

namespace StoreFrame
open Jesse Jesse.Eng Jesse.Gen Jesse.Acc

variable {M : Type}

theorem getD_upd_same {α} [Inhabited α] (l : List α) (i : Nat) (f : α → α) (h : i < l.length) :
    (Acc.upd l i f).getD i default = f (l.getD i default) := by
  induction l generalizing i with
  | nil => simp at h
  | cons x xs ih =>
    cases i with
    | zero => simp [Acc.upd]
    | succ i => simp only [Acc.upd, List.getD_cons_succ]; exact ih i (by simpa using h)

theorem length_upd {α} (l : List α) (i : Nat) (f : α → α) : (Acc.upd l i f).length = l.length := by
  induction l generalizing i with
  | nil => simp [Acc.upd]
  | cons x xs ih => cases i <;> simp [Acc.upd, ih]

/-- the store-level step of PUBLISH for one timeframe: the aggregate of the last `needed` stored minutes
    (`needed` from the candle's timestamp) is added to the timeframe's array -/
def pubStep (c : Candle) (s : SymStore) (tf : Nat) : SymStore :=
  match Store.generate tf (s.short.drop (s.short.length - (((c.ts % ((tf : Int) * 60000)) / 60000).toNat + 1))) with
  | .ok g => setLong s tf (Store.addCandle (longOf s tf) g)
  | .error _ => s

theorem storeOf_addCandle (e : Engine M) (sym tf : Nat) (c : Candle) (hs : sym < e.stores.length) :
    storeOf (addCandle e sym tf c) sym =
      (if tf = 1 then { storeOf e sym with short := Store.addCandle (storeOf e sym).short c }
       else setLong (storeOf e sym) tf (Store.addCandle (longOf (storeOf e sym) tf) c)) := by
  unfold addCandle storeOf
  show (Acc.upd e.stores sym _).getD sym default = _
  rw [getD_upd_same _ _ _ hs]

theorem storeOf_fail (e : Engine M) (k : Err) (sym : Nat) : storeOf (fail e k) sym = storeOf e sym := by
  unfold fail; split <;> rfl

theorem stores_length_addCandle (e : Engine M) (sym tf : Nat) (c : Candle) :
    (addCandle e sym tf c).stores.length = e.stores.length := by
  unfold addCandle; exact length_upd _ _ _

theorem stores_length_fail (e : Engine M) (k : Err) : (fail e k).stores.length = e.stores.length := by
  unfold fail; split <;> rfl

/-- `_update_all_routes_a_partial_candle`, seen from the store of its symbol: REPLACE LAST on the 1m array, then one
    PUBLISH step per bigger timeframe of the symbol -/
theorem updatePartialCandle_store (e : Engine M) (sym : Nat) (c : Candle) (hs : sym < e.stores.length) :
    storeOf (updatePartialCandle e sym c) sym =
      (((e.cfg.routes ++ e.cfg.dataRoutes).filter (fun r => r.sym = sym ∧ r.tf ≠ 1)).map (·.tf)).foldl (pubStep c)
        { storeOf e sym with short := Store.addCandle (storeOf e sym).short c } := by
  unfold updatePartialCandle
  dsimp only
  have h1 : storeOf (addCandle e sym 1 c) sym = { storeOf e sym with short := Store.addCandle (storeOf e sym).short c } := by
    rw [storeOf_addCandle e sym 1 c hs]; simp
  have hl1 : sym < (addCandle e sym 1 c).stores.length := by rw [stores_length_addCandle]; exact hs
  have htf : ∀ tf ∈ (((e.cfg.routes ++ e.cfg.dataRoutes).filter (fun r => r.sym = sym ∧ r.tf ≠ 1)).map (·.tf)), tf ≠ 1 := by
    intro tf h
    obtain ⟨r, hr, rfl⟩ := List.mem_map.mp h
    have := (List.mem_filter.mp hr).2
    simp only [decide_eq_true_eq] at this
    exact this.2
  generalize (((e.cfg.routes ++ e.cfg.dataRoutes).filter (fun r => r.sym = sym ∧ r.tf ≠ 1)).map (·.tf)) = tfs at htf
  rw [← h1]
  generalize addCandle e sym 1 c = e1 at hl1
  clear h1
  induction tfs generalizing e1 with
  | nil => rfl
  | cons tf rest ih =>
    simp only [List.foldl_cons]
    have h1 : tf ≠ 1 := htf tf List.mem_cons_self
    have hstep : storeOf (match Store.generate tf ((storeOf e1 sym).short.drop ((storeOf e1 sym).short.length - (((c.ts % ((tf : Int) * 60000)) / 60000).toNat + 1))) with
        | .ok g => addCandle e1 sym tf g
        | .error k => fail e1 k) sym = pubStep c (storeOf e1 sym) tf ∧
        sym < (match Store.generate tf ((storeOf e1 sym).short.drop ((storeOf e1 sym).short.length - (((c.ts % ((tf : Int) * 60000)) / 60000).toNat + 1))) with
        | .ok g => addCandle e1 sym tf g
        | .error k => fail e1 k).stores.length := by
      unfold pubStep
      cases hg : Store.generate tf ((storeOf e1 sym).short.drop ((storeOf e1 sym).short.length - (((c.ts % ((tf : Int) * 60000)) / 60000).toNat + 1))) with
      | error k => exact ⟨storeOf_fail _ _ _, by rw [stores_length_fail]; exact hl1⟩
      | ok g =>
        refine ⟨?_, by rw [stores_length_addCandle]; exact hl1⟩
        rw [storeOf_addCandle e1 sym tf g hl1]
        simp [h1]
    rw [← hstep.1]
    exact ih (fun t ht => htf t (List.mem_cons_of_mem _ ht)) _ hstep.2


theorem lookup_filter_ne {β} (l : List (Nat × β)) (m m' : Nat) (h : m' ≠ m) :
    (l.filter (fun p => p.1 ≠ m)).lookup m' = l.lookup m' := by
  induction l with
  | nil => rfl
  | cons x xs ih =>
    obtain ⟨k, v⟩ := x
    by_cases hx : k = m
    · have h1 : (m' == k) = false := by rw [hx]; exact beq_false_of_ne h
      have hf : List.filter (fun p : Nat × β => p.1 ≠ m) ((k, v) :: xs) = List.filter (fun p : Nat × β => p.1 ≠ m) xs := by
        rw [List.filter_cons]; simp [hx]
      rw [hf, ih, List.lookup_cons, h1]
    · have hf : List.filter (fun p : Nat × β => p.1 ≠ m) ((k, v) :: xs) = (k, v) :: List.filter (fun p : Nat × β => p.1 ≠ m) xs := by
        rw [List.filter_cons]; simp [hx]
      rw [hf, List.lookup_cons, List.lookup_cons, ih]

theorem longOf_setLong_same (s : SymStore) (m : Nat) (cs : List Candle) : longOf (setLong s m cs) m = cs := by
  simp [longOf, setLong]

theorem longOf_setLong_other (s : SymStore) (m m' : Nat) (cs : List Candle) (h : m' ≠ m) :
    longOf (setLong s m cs) m' = longOf s m' := by
  unfold longOf setLong
  have h1 : (m' == m) = false := beq_false_of_ne h
  rw [List.lookup_cons, h1, lookup_filter_ne _ _ _ h]

end StoreFrame

/-! ### a symbol's part of an iteration leaves the stores of the OTHER symbols (and the configuration) alone -/

namespace StoreFrame
open Jesse Jesse.Eng Jesse.Gen Jesse.Acc

variable {M : Type}

/-- `e'` differs from `e` at most in the store of symbol `sym` (same number of stores, same configuration) -/
def OSame (sym : Nat) (e e' : Engine M) : Prop :=
  e'.stores.length = e.stores.length ∧ e'.cfg = e.cfg ∧ ∀ s, s ≠ sym → storeOf e' s = storeOf e s

theorem OSame.refl (sym : Nat) (e : Engine M) : OSame sym e e := ⟨rfl, rfl, fun _ _ => rfl⟩
theorem OSame.trans {sym : Nat} {a b c : Engine M} (h1 : OSame sym a b) (h2 : OSame sym b c) : OSame sym a c :=
  ⟨h2.1.trans h1.1, h2.2.1.trans h1.2.1, fun s hs => (h2.2.2 s hs).trans (h1.2.2 s hs)⟩
theorem OSame.of_ss {sym : Nat} {e e' : Engine M} (h : SSame e e') : OSame sym e e' :=
  ⟨by rw [h.1], h.2, fun s _ => by unfold storeOf; rw [h.1]⟩

theorem getD_upd_ne {α} [Inhabited α] (l : List α) (i s : Nat) (f : α → α) (h : s ≠ i) :
    (Acc.upd l i f).getD s default = l.getD s default := by
  induction l generalizing i s with
  | nil => simp [Acc.upd]
  | cons x xs ih =>
    cases i with
    | zero =>
      cases s with
      | zero => exact absurd rfl h
      | succ s => simp [Acc.upd]
    | succ i =>
      cases s with
      | zero => simp [Acc.upd]
      | succ s =>
        simp only [Acc.upd, List.getD_cons_succ]
        exact ih i s (by omega)

theorem addCandle_os (e : Engine M) (sym tf : Nat) (c : Candle) : OSame sym e (addCandle e sym tf c) :=
  ⟨stores_length_addCandle _ _ _ _, rfl, fun s hs => by unfold addCandle storeOf; exact getD_upd_ne _ _ _ _ hs⟩

theorem fail_os (sym : Nat) (e : Engine M) (k : Err) : OSame sym e (fail e k) := OSame.of_ss (fail_ss e k)

theorem foldl_os {α} (sym : Nat) (g : Engine M → α → Engine M) (hg : ∀ e x, OSame sym e (g e x)) (l : List α) (e : Engine M) :
    OSame sym e (l.foldl g e) := by
  induction l generalizing e with
  | nil => exact OSame.refl _ _
  | cons x xs ih => exact OSame.trans (hg e x) (ih (g e x))

theorem updatePartialCandle_os (e : Engine M) (sym : Nat) (c : Candle) : OSame sym e (updatePartialCandle e sym c) := by
  unfold updatePartialCandle
  refine OSame.trans (addCandle_os e sym 1 c) ?_
  apply foldl_os
  intro e' tf
  dsimp only
  split
  · exact addCandle_os _ _ _ _
  · exact fail_os _ _ _

section os
variable [Inhabited M] (u : UserStrategy M)

theorem matchLoop_os (fuel : Nat) : ∀ (e : Engine M) (sym : Nat) (cur : Candle) (cands : List Nat)
    (resel : Engine M → Candle → List Nat) (st : Bool), OSame sym e (matchLoop u fuel e sym cur cands resel st).1 := by
  induction fuel with
  | zero => intro e sym cur cands resel st; unfold matchLoop; exact fail_os _ _ _
  | succ f ih =>
    intro e sym cur cands resel st
    unfold matchLoop
    dsimp only
    split
    · exact OSame.refl _ _
    · split
      · exact OSame.refl _ _
      · split
        · exact fail_os _ _ _
        · rename_i a b hs
          refine OSame.trans ?_ (ih _ _ _ _ _ _)
          refine OSame.trans ?_ (OSame.of_ss (executeOrder_ss u _ _))
          refine OSame.trans (updatePartialCandle_os e sym a) ?_
          split
          · exact OSame.of_ss ⟨rfl, rfl⟩
          · exact OSame.of_ss ⟨rfl, rfl⟩

theorem checkLiquidation_os (e : Engine M) (sym : Nat) (c : Candle) : OSame sym e (checkLiquidation u e sym c) := by
  unfold checkLiquidation
  dsimp only
  repeat' split
  all_goals first
    | exact OSame.refl _ _
    | (rename_i w' h _ last hl
       refine OSame.trans ?_ (OSame.of_ss (executeOrder_ss u _ _))
       refine OSame.trans ?_ (updatePartialCandle_os _ sym last)
       exact OSame.of_ss ⟨rfl, rfl⟩)
    | (exact OSame.trans (OSame.of_ss ⟨rfl, rfl⟩) (fail_os _ _ _))

theorem simulateMinute_os (fuel : Nat) (e : Engine M) (sym : Nat) (real : Candle) : OSame sym e (simulateMinute u fuel e sym real) := by
  unfold simulateMinute
  dsimp only
  split
  · exact OSame.refl _ _
  · have h := matchLoop_os u fuel e sym real
      ((fun (e : Engine M) (c : Candle) => if (executingOrders e sym c).length > 1 then sortExecutionOrders e (executingOrders e sym c) [c] else executingOrders e sym c) e real)
      (fun (e : Engine M) (c : Candle) => if (executingOrders e sym c).length > 1 then sortExecutionOrders e (executingOrders e sym c) [c] else executingOrders e sym c) false
    revert h
    generalize matchLoop u fuel e sym real _ _ false = p
    intro h
    obtain ⟨e1, c'⟩ := p
    dsimp only at h ⊢
    split
    · exact h
    · exact OSame.trans h (OSame.trans (OSame.trans (addCandle_os e1 sym 1 real) (OSame.of_ss ⟨rfl, rfl⟩)) (checkLiquidation_os u _ _ _))

theorem symStep_os (fuel i : Nat) (acc : Engine M × List (List Candle)) (sym : Nat) :
    OSame sym acc.1 (symStep u fuel i acc sym).1 := by
  unfold symStep
  dsimp only
  split
  · exact OSame.refl _ _
  · split
    · exact fail_os _ _ _
    · rename_i c hc
      refine OSame.trans (OSame.trans (addCandle_os acc.1 sym 1 c) (simulateMinute_os u fuel (addCandle acc.1 sym 1 c) sym c)) ?_
      apply foldl_os
      intro e tf
      try dsimp only
      split
      · split
        · exact addCandle_os _ _ _ _
        · exact fail_os _ _ _
      · exact OSame.refl _ _

/-- the symbol's part of an iteration rewrites only its own input array -/
theorem symStep_inputs (fuel i : Nat) (acc : Engine M × List (List Candle)) (sym s : Nat) (hs : s ≠ sym) :
    (symStep u fuel i acc sym).2.getD s [] = acc.2.getD s [] ∧ (symStep u fuel i acc sym).2.length = acc.2.length := by
  unfold symStep
  dsimp only
  split
  · exact ⟨rfl, rfl⟩
  · split
    · exact ⟨rfl, rfl⟩
    · refine ⟨?_, by simp⟩
      rw [List.getD_eq_getElem?_getD, List.getElem?_set_ne (by omega), ← List.getD_eq_getElem?_getD]

theorem perMinute_os (fuel : Nat) (sym : Nat) (real : Candle) (rest : List Candle) :
    ∀ (prev : Option Candle) (e : Engine M) (cands : List Nat), OSame sym e (simulateChunk.perMinute u fuel sym real rest prev e cands) := by
  induction rest with
  | nil => intro prev e cands; unfold simulateChunk.perMinute; exact OSame.refl _ _
  | cons c more ih =>
    intro prev e cands
    unfold simulateChunk.perMinute
    dsimp only
    split
    · exact OSame.refl _ _
    · have key : ∀ cur : Candle, OSame sym e
          (match matchLoop u fuel e sym cur cands (chunkReselect sym real c more) true with
           | (e1, cur') =>
             if e1.err.isSome then e1 else
             simulateChunk.perMinute u fuel sym real more (some c) (setCurrentPrice (addCandle e1 sym 1 c) sym cur'.c)
               (if e1.log.length = e.log.length then cands else chunkReselect sym real c more e1 cur')) := by
        intro cur
        have h := matchLoop_os u fuel e sym cur cands (chunkReselect sym real c more) true
        revert h
        generalize matchLoop u fuel e sym cur cands (chunkReselect sym real c more) true = p
        intro h
        obtain ⟨e1, c'⟩ := p
        dsimp only at h ⊢
        split
        · exact h
        · exact OSame.trans h (OSame.trans (OSame.trans (addCandle_os e1 sym 1 c) (OSame.of_ss ⟨rfl, rfl⟩)) (ih _ _ _))
      exact key _

theorem simulateChunk_os (fuel : Nat) (e : Engine M) (sym : Nat) (cs : List Candle) : OSame sym e (simulateChunk u fuel e sym cs) := by
  unfold simulateChunk
  dsimp only
  split
  · exact OSame.refl _ _
  · split
    · exact fail_os _ _ _
    · rename_i real hreal
      have h1 : OSame sym e (if (executingOrders e sym real).length > 0 then
          simulateChunk.perMinute u fuel sym real cs none e
            (if (executingOrders e sym real).length > 1 then sortExecutionOrders e (executingOrders e sym real) (fixChunk none cs) else executingOrders e sym real)
          else e) := by
        split
        · exact perMinute_os u fuel sym real cs _ _ _
        · exact OSame.refl _ _
      revert h1
      generalize (if (executingOrders e sym real).length > 0 then
          simulateChunk.perMinute u fuel sym real cs none e
            (if (executingOrders e sym real).length > 1 then sortExecutionOrders e (executingOrders e sym real) (fixChunk none cs) else executingOrders e sym real)
          else e) = e1
      intro h1
      split
      · exact h1
      · split
        · exact OSame.trans h1 (fail_os _ _ _)
        · rename_i short' hs
          have h2 : OSame sym e1 { e1 with stores := upd e1.stores sym (fun s => { s with short := short' }), time := real.ts + 60000 * cs.length } :=
            ⟨length_upd _ _ _, rfl, fun s hs' => by unfold storeOf; exact getD_upd_ne _ _ _ _ hs'⟩
          have h3 := OSame.trans h2 (checkLiquidation_os u { e1 with stores := upd e1.stores sym (fun s => { s with short := short' }), time := real.ts + 60000 * cs.length } sym real)
          split
          · exact OSame.trans h1 (OSame.trans h3 (OSame.of_ss ⟨rfl, rfl⟩))
          · exact OSame.trans h1 h3

theorem symSkip_os (fuel i step : Nat) (acc : Engine M × List (List Candle)) (sym : Nat) :
    OSame sym acc.1 (symSkip u fuel i step acc sym).1 := by
  unfold symSkip
  dsimp only
  split
  · exact OSame.refl _ _
  · refine OSame.trans (simulateChunk_os u fuel acc.1 sym
      (Py.slice (fixedFirst (acc.2.getD sym []) i) (some (i : Int)) (some ((i : Int) + step)))) ?_
    apply foldl_os
    intro e tf
    try dsimp only
    split
    · split
      · exact addCandle_os _ _ _ _
      · exact fail_os _ _ _
    · exact OSame.refl _ _

theorem symSkip_inputs (fuel i step : Nat) (acc : Engine M × List (List Candle)) (sym s : Nat) (hs : s ≠ sym) :
    (symSkip u fuel i step acc sym).2.getD s [] = acc.2.getD s [] ∧ (symSkip u fuel i step acc sym).2.length = acc.2.length := by
  unfold symSkip
  dsimp only
  split
  · exact ⟨rfl, rfl⟩
  · refine ⟨?_, by simp⟩
    rw [List.getD_eq_getElem?_getD, List.getElem?_set_ne (by omega), ← List.getD_eq_getElem?_getD]

end os

end StoreFrame
