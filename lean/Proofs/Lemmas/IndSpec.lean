/-
  Proofs/Lemmas/IndSpec.lean — helper lemmas relating the kernel combinators (Jesse/Ind/Core.lean) to
  the index-style textbook definitions (Spec/Ind.lean).
-/
import Proofs.Lemmas.Num
import Proofs.Lemmas.Causal
import Jesse.Ind.MA
import Jesse.Ind.Simple
import Jesse.Ind.Osc
import Spec.Ind

namespace Jesse.Ind
open Spec.Ind

theorem pmap_getElem? {α β} (h : List α → β) (xs : List α) (i : Nat) (hi : i < xs.length) :
    (pmap h xs)[i]? = some (h (xs.take (i + 1))) := by
  unfold pmap
  rw [List.getElem?_map, List.getElem?_range hi]; rfl

theorem lastN_take_eq_window {α} (p i : Nat) (xs : List α) (hi : i < xs.length) (hp : p ≤ i + 1) :
    lastN p (xs.take (i + 1)) = window p i xs := by
  unfold lastN window
  rw [List.length_take, List.drop_take]
  have h1 : min (i + 1) xs.length = i + 1 := by omega
  rw [h1]
  congr 1
  omega

/-- row `i` of a trailing-window kernel -/
theorem trailing_getElem? {α β} (p : Nat) (g : List α → Option β) (xs : List α) (i : Nat) (hi : i < xs.length) :
    (trailing p g xs)[i]? = some (if i + 1 < p then none else g (window p i xs)) := by
  unfold trailing
  rw [pmap_getElem? _ _ _ hi]
  have h1 : (xs.take (i + 1)).length = i + 1 := by rw [List.length_take]; omega
  rw [h1]
  by_cases hp : i + 1 < p
  · simp [hp]
  · simp only [hp, if_false]
    rw [lastN_take_eq_window p i xs hi (by omega)]

theorem length_window {α} (p i : Nat) (xs : List α) (hi : i < xs.length) (hp : p ≤ i + 1) :
    (window p i xs).length = p := by
  unfold window
  rw [List.length_take, List.length_drop]; omega

theorem sum_eq_listSum (w : List Rat) : Jesse.Ind.sum w = w.sum := by
  induction w with
  | nil => rfl
  | cons x r ih => show x + Jesse.Ind.sum r = _; rw [ih, List.sum_cons]

/-- the convolution with `p` equal weights `1/p` is the sum divided by `p` -/
theorem dot_replicate (w : List Rat) (c : Rat) (n : Nat) (h : w.length ≤ n) :
    dot w (List.replicate n c) = c * w.sum := by
  induction w generalizing n with
  | nil => cases n <;> simp [dot]
  | cons x r ih =>
    cases n with
    | zero => simp at h
    | succ n =>
      simp only [List.replicate_succ, dot, List.sum_cons]
      rw [ih n (by simpa using h)]
      ring

/-- `np.dot(window, arange(k, k+len))` is the linearly weighted sum -/
theorem dot_arangeFrom (w : List Rat) (k : Nat) (n : Nat) (h : w.length ≤ n) :
    dot w ((List.range n).map (fun i => ((i + k : Nat) : Rat))) = linWeighted k w := by
  induction w generalizing k n with
  | nil => cases n <;> simp [dot, linWeighted]
  | cons x r ih =>
    cases n with
    | zero => simp at h
    | succ n =>
      rw [List.range_succ_eq_map]
      simp only [List.map_cons, List.map_map, dot, linWeighted]
      have := ih (k + 1) n (by simpa using h)
      have hfun : ((fun i => ((i + k : Nat) : Rat)) ∘ Nat.succ) = (fun i => ((i + (k + 1) : Nat) : Rat)) := by
        funext i; simp [Nat.succ_eq_add_one]; ring
      rw [hfun, this]
      simp; ring

theorem sum_arange1 (p : Nat) : Jesse.Ind.sum (arange1 p) = (p : Rat) * ((p : Rat) + 1) / 2 := by
  rw [sum_eq_listSum]
  unfold arange1
  induction p with
  | zero => simp
  | succ n ih =>
    rw [List.range_succ, List.map_append, List.sum_append, ih]
    simp; ring

/-! ### left-to-right loops: the state after a prefix -/

/-- the loop state after consuming `xs` -/
def stateAfter {σ α β} (step : σ → α → σ × β) (s : σ) (xs : List α) : σ :=
  xs.foldl (fun s x => (step s x).1) s

theorem stateAfter_take_succ {σ α β} (step : σ → α → σ × β) (s : σ) (xs : List α) (k : Nat) (x : α)
    (hx : xs[k]? = some x) :
    stateAfter step s (xs.take (k + 1)) = (step (stateAfter step s (xs.take k)) x).1 := by
  unfold stateAfter
  rw [List.take_add_one, hx, List.foldl_append]
  rfl

theorem scanState_getElem? {σ α β} (step : σ → α → σ × β) (s : σ) (xs : List α) (i : Nat) :
    (scanState step s xs)[i]? = xs[i]?.map (fun x => (step (stateAfter step s (xs.take i)) x).2) := by
  induction xs generalizing s i with
  | nil => simp [scanState]
  | cons y ys ih =>
    cases i with
    | zero => simp [scanState, stateAfter]
    | succ i =>
      simp only [scanState, List.getElem?_cons_succ, List.take_succ_cons]
      rw [ih]
      rfl

/-! ### the SMA-seeded smoother (`ema`, `atr`) -/

theorem seededStep_fst (p : Nat) (upd : Rat → Rat → Rat) (s : Nat × Rat) (x : Rat) :
    (seededStep p upd s x).1.1 = s.1 + 1 := by
  unfold seededStep
  split
  · rfl
  · split <;> rfl

theorem seeded_state_count (p : Nat) (upd : Rat → Rat → Rat) (xs : List Rat) (k : Nat) (hk : k ≤ xs.length) :
    (stateAfter (seededStep p upd) (0, 0) (xs.take k)).1 = k := by
  induction k with
  | zero => simp [stateAfter]
  | succ k ih =>
    have hlt : k < xs.length := by omega
    obtain ⟨x, hx⟩ : ∃ x, xs[k]? = some x := ⟨xs[k], by simp [hlt]⟩
    rw [stateAfter_take_succ _ _ _ _ x hx, seededStep_fst, ih (by omega)]

/-- while seeding, the state carries the running sum of the rows seen -/
theorem seeded_state_sum (p : Nat) (upd : Rat → Rat → Rat) (xs : List Rat) (k : Nat) (hk : k ≤ xs.length) (hp : k < p) :
    (stateAfter (seededStep p upd) (0, 0) (xs.take k)).2 = (xs.take k).sum := by
  induction k with
  | zero => simp [stateAfter]
  | succ k ih =>
    have hlt : k < xs.length := by omega
    obtain ⟨x, hx⟩ : ∃ x, xs[k]? = some x := ⟨xs[k], by simp [hlt]⟩
    rw [stateAfter_take_succ _ _ _ _ x hx]
    have hc := seeded_state_count p upd xs k (by omega)
    have hs := ih (by omega) (by omega)
    obtain ⟨st, hst⟩ : ∃ st, stateAfter (seededStep p upd) (0, 0) (xs.take k) = st := ⟨_, rfl⟩
    rw [hst] at hc hs ⊢
    have h2 : (seededStep p upd st x).1.2 = st.2 + x := by
      unfold seededStep; rw [if_pos (by omega)]
    rw [h2, hs, List.take_add_one, hx, List.sum_append]
    simp

/-- from the seed row on, the emitted value is the value carried in the state -/
theorem seededStep_snd_of_ge (p : Nat) (upd : Rat → Rat → Rat) (s : Nat × Rat) (x : Rat) (h : p ≤ s.1 + 1) :
    (seededStep p upd s x).2 = some (seededStep p upd s x).1.2 := by
  unfold seededStep
  rw [if_neg (by omega)]
  split <;> rfl

theorem seeded_getElem? (p : Nat) (upd : Rat → Rat → Rat) (xs : List Rat) (i : Nat) (x : Rat) (hx : xs[i]? = some x) :
    (seeded p upd xs)[i]? = some (seededStep p upd (stateAfter (seededStep p upd) (0, 0) (xs.take i)) x).2 := by
  unfold seeded
  rw [scanState_getElem?, hx]; rfl

theorem seeded_none (p : Nat) (upd : Rat → Rat → Rat) (xs : List Rat) (i : Nat) (hi : i < xs.length) (h : i + 1 < p) :
    (seeded p upd xs)[i]? = some none := by
  obtain ⟨x, hx⟩ : ∃ x, xs[i]? = some x := ⟨xs[i], by simp [hi]⟩
  rw [seeded_getElem? p upd xs i x hx]
  have hc := seeded_state_count p upd xs i (by omega)
  obtain ⟨st, hst⟩ : ∃ st, stateAfter (seededStep p upd) (0, 0) (xs.take i) = st := ⟨_, rfl⟩
  rw [hst] at hc ⊢
  unfold seededStep
  rw [if_pos (by omega)]

theorem seeded_seed (p : Nat) (upd : Rat → Rat → Rat) (xs : List Rat) (hp : 0 < p) (h : p ≤ xs.length) :
    (seeded p upd xs)[p - 1]? = some (some (mean (xs.take p))) := by
  have hi : p - 1 < xs.length := by omega
  obtain ⟨x, hx⟩ : ∃ x, xs[p - 1]? = some x := ⟨xs[p - 1], by simp [hi]⟩
  rw [seeded_getElem? p upd xs (p - 1) x hx]
  have hc := seeded_state_count p upd xs (p - 1) (by omega)
  have hs := seeded_state_sum p upd xs (p - 1) (by omega) (by omega)
  obtain ⟨st, hst⟩ : ∃ st, stateAfter (seededStep p upd) (0, 0) (xs.take (p - 1)) = st := ⟨_, rfl⟩
  rw [hst] at hc hs ⊢
  unfold seededStep
  rw [if_neg (by omega), if_pos (by omega)]
  simp only
  have h1 : xs.take p = xs.take (p - 1) ++ [x] := by
    have : p = (p - 1) + 1 := by omega
    rw [this, List.take_add_one, hx]; simp
  unfold mean
  rw [h1, List.sum_append, hs, List.length_append, List.length_take]
  have h2 : min (p - 1) xs.length = p - 1 := by omega
  rw [h2]
  simp
  have : ((p - 1 : Nat) : Rat) + 1 = (p : Rat) := by
    have : (p - 1) + 1 = p := by omega
    exact_mod_cast this
  rw [this]

theorem seeded_step (p : Nat) (upd : Rat → Rat → Rat) (xs : List Rat) (i : Nat) (prev x : Rat)
    (hp : 0 < p) (hpi : p ≤ i) (hprev : (seeded p upd xs)[i - 1]? = some (some prev)) (hx : xs[i]? = some x) :
    (seeded p upd xs)[i]? = some (some (upd prev x)) := by
  have hi : i < xs.length := by
    by_contra hc
    rw [List.getElem?_eq_none (by omega)] at hx; cases hx
  obtain ⟨y, hy⟩ : ∃ y, xs[i - 1]? = some y := ⟨xs[i - 1]'(by omega), by simp⟩
  rw [seeded_getElem? p upd xs (i - 1) y hy] at hprev
  rw [seeded_getElem? p upd xs i x hx]
  have hsucc : i = (i - 1) + 1 := by omega
  have hst : stateAfter (seededStep p upd) (0, 0) (xs.take i)
      = (seededStep p upd (stateAfter (seededStep p upd) (0, 0) (xs.take (i - 1))) y).1 := by
    conv => lhs; rw [hsucc]
    exact stateAfter_take_succ _ _ _ _ y hy
  have hc1 := seeded_state_count p upd xs (i - 1) (by omega)
  have hc := seeded_state_count p upd xs i (by omega)
  obtain ⟨s0, hs0⟩ : ∃ s0, stateAfter (seededStep p upd) (0, 0) (xs.take (i - 1)) = s0 := ⟨_, rfl⟩
  rw [hs0] at hst hprev hc1
  have h2 := seededStep_snd_of_ge p upd s0 y (by omega)
  rw [h2] at hprev
  obtain ⟨s1, hs1⟩ : ∃ s1, stateAfter (seededStep p upd) (0, 0) (xs.take i) = s1 := ⟨_, rfl⟩
  rw [hs1] at hst hc ⊢
  have hv : s1.2 = prev := by
    rw [hst]
    simpa using hprev
  unfold seededStep
  rw [if_neg (by omega), if_neg (by omega), hv]

/-! ### seed independence of exponential smoothers -/

/-- one step of `out = a*x + (1-a)*prev`, emitting the new value -/
def smoothStep (a : Rat) (prev x : Rat) : Rat × Rat := (emaUpd a prev x, emaUpd a prev x)

theorem rmaStep_eq (p : Nat) : rmaStep p = smoothStep (1 / (p : Rat)) := rfl

/-- two runs of the same exponential recurrence from different seeds differ at row `i` by
    `(1-a)^(i+1)` times the seed difference -/
theorem smooth_seed_diff (a s1 s2 : Rat) (xs : List Rat) (i : Nat) (hi : i < xs.length) :
    ∃ y1 y2, (scanState (smoothStep a) s1 xs)[i]? = some y1 ∧ (scanState (smoothStep a) s2 xs)[i]? = some y2
      ∧ y1 - y2 = (1 - a) ^ (i + 1) * (s1 - s2) := by
  induction xs generalizing s1 s2 i with
  | nil => simp at hi
  | cons x xs ih =>
    cases i with
    | zero =>
      refine ⟨emaUpd a s1 x, emaUpd a s2 x, by simp [scanState, smoothStep], by simp [scanState, smoothStep], ?_⟩
      unfold emaUpd; ring
    | succ i =>
      obtain ⟨y1, y2, h1, h2, h3⟩ := ih (emaUpd a s1 x) (emaUpd a s2 x) i (by simpa using hi)
      refine ⟨y1, y2, by simpa [scanState, smoothStep] using h1, by simpa [scanState, smoothStep] using h2, ?_⟩
      rw [h3]; unfold emaUpd; ring

/-! ### maxima and minima of a window -/

theorem maxL_mem (w : List Rat) (h : w ≠ []) : maxL w ∈ w := by
  induction w with
  | nil => exact absurd rfl h
  | cons x r ih =>
    cases r with
    | nil => simp [maxL]
    | cons y r' =>
      have := ih (by simp)
      simp only [maxL, maxR]
      split
      · exact List.mem_cons_of_mem _ this
      · exact List.mem_cons_self

theorem le_maxL (w : List Rat) (y : Rat) (hy : y ∈ w) : y ≤ maxL w := by
  induction w with
  | nil => cases hy
  | cons x r ih =>
    cases r with
    | nil => simp at hy; simp [maxL, hy]
    | cons z r' =>
      simp only [maxL]
      rw [maxR_eq_max]
      rcases List.mem_cons.mp hy with h | h
      · rw [h]; exact le_max_left _ _
      · exact le_trans (ih h) (le_max_right _ _)

theorem minL_mem (w : List Rat) (h : w ≠ []) : minL w ∈ w := by
  induction w with
  | nil => exact absurd rfl h
  | cons x r ih =>
    cases r with
    | nil => simp [minL]
    | cons y r' =>
      have := ih (by simp)
      simp only [minL, minR]
      split
      · exact List.mem_cons_of_mem _ this
      · exact List.mem_cons_self

theorem minL_le (w : List Rat) (y : Rat) (hy : y ∈ w) : minL w ≤ y := by
  induction w with
  | nil => cases hy
  | cons x r ih =>
    cases r with
    | nil => simp at hy; simp [minL, hy]
    | cons z r' =>
      simp only [minL]
      rw [minR_eq_min]
      rcases List.mem_cons.mp hy with h | h
      · rw [h]; exact min_le_left _ _
      · exact le_trans (min_le_right _ _) (ih h)

theorem isMax_maxL (w : List Rat) (h : w ≠ []) : IsMax (maxL w) w := ⟨maxL_mem w h, fun y hy => le_maxL w y hy⟩
theorem isMin_minL (w : List Rat) (h : w ≠ []) : IsMin (minL w) w := ⟨minL_mem w h, fun y hy => minL_le w y hy⟩

theorem window_ne_nil {α} (p i : Nat) (xs : List α) (hi : i < xs.length) (hp : 0 < p) (hpi : p ≤ i + 1) :
    window p i xs ≠ [] := by
  intro h
  have := length_window p i xs hi hpi
  rw [h] at this; simp at this; omega

theorem mem_of_mem_window {α} (p i : Nat) (xs : List α) (k : α) (h : k ∈ window p i xs) : k ∈ xs := by
  unfold window at h
  exact List.mem_of_mem_drop (List.mem_of_mem_take h)

/-- outputs of a loop satisfy `P` when the step keeps an invariant of the state and emits `P`-values -/
theorem scanState_forall {σ α β} (step : σ → α → σ × β) (Inv : σ → Prop) (Q : α → Prop) (P : β → Prop)
    (hstep : ∀ s x, Inv s → Q x → Inv (step s x).1 ∧ P (step s x).2)
    (s : σ) (hs : Inv s) (xs : List α) (hq : ∀ x ∈ xs, Q x) : ∀ y ∈ scanState step s xs, P y := by
  induction xs generalizing s with
  | nil => intro y hy; simp [scanState] at hy
  | cons x xs ih =>
    intro y hy
    have h1 := hstep s x hs (hq x List.mem_cons_self)
    simp only [scanState, List.mem_cons] at hy
    rcases hy with h | h
    · rw [h]; exact h1.2
    · exact ih _ h1.1 (fun z hz => hq z (List.mem_cons_of_mem _ hz)) y h

/-! ### homogeneity -/

theorem pmap_map {α β γ} (h : List β → γ) (f : α → β) (xs : List α) :
    pmap h (xs.map f) = pmap (fun pre => h (pre.map f)) xs := by
  unfold pmap
  rw [List.length_map]
  apply List.map_congr_left
  intro i _
  show h (List.take (i + 1) (List.map f xs)) = h (List.map f (List.take (i + 1) xs))
  rw [List.map_take]

theorem pmap_comp_out {α β γ} (k : β → γ) (h : List α → β) (xs : List α) :
    pmap (fun pre => k (h pre)) xs = (pmap h xs).map k := by
  unfold pmap
  rw [List.map_map]; rfl

theorem dot_map_mul (c : Rat) (w W : List Rat) : dot (w.map (c * ·)) W = c * dot w W := by
  induction w generalizing W with
  | nil => simp [dot]
  | cons x r ih =>
    cases W with
    | nil => simp [dot]
    | cons y ys => simp only [List.map_cons, dot, ih]; ring

theorem lastN_map {α β} (p : Nat) (f : α → β) (pre : List α) : lastN p (pre.map f) = (lastN p pre).map f := by
  unfold lastN
  rw [List.length_map, List.map_drop]

/-- a trailing-window kernel whose window function is homogeneous is homogeneous -/
theorem trailing_hom (p : Nat) (g : List Rat → Option Rat) (c : Rat)
    (hg : ∀ w, g (w.map (c * ·)) = (g w).map (c * ·)) (xs : List Rat) :
    trailing p g (xs.map (c * ·)) = (trailing p g xs).map (Option.map (c * ·)) := by
  unfold trailing
  rw [pmap_map, ← pmap_comp_out]
  congr 1
  funext pre
  rw [List.length_map, lastN_map, hg]
  split <;> rfl

/-- two loops whose states stay related emit related outputs -/
theorem scanState_map_rel {σ σ' α α' β β'} (step : σ → α → σ × β) (step' : σ' → α' → σ' × β')
    (R : σ → σ' → Prop) (f : α → α') (k : β → β')
    (h : ∀ s s' x, R s s' → R (step s x).1 (step' s' (f x)).1 ∧ (step' s' (f x)).2 = k (step s x).2)
    (s : σ) (s' : σ') (hs : R s s') (xs : List α) :
    scanState step' s' (xs.map f) = (scanState step s xs).map k := by
  induction xs generalizing s s' with
  | nil => rfl
  | cons x xs ih =>
    obtain ⟨h1, h2⟩ := h s s' x hs
    simp only [List.map_cons, scanState, h2]
    rw [ih _ _ h1]

theorem seeded_hom (p : Nat) (upd : Rat → Rat → Rat) (c : Rat) (hp : 0 < p)
    (hu : ∀ a b, upd (c * a) (c * b) = c * upd a b) (xs : List Rat) :
    seeded p upd (xs.map (c * ·)) = (seeded p upd xs).map (Option.map (c * ·)) := by
  unfold seeded
  apply scanState_map_rel (seededStep p upd) (seededStep p upd) (fun s s' => s'.1 = s.1 ∧ s'.2 = c * s.2)
  · intro s s' x ⟨h1, h2⟩
    have hpR : (p : Rat) ≠ 0 := by exact_mod_cast (by omega : p ≠ 0)
    unfold seededStep
    rw [h1, h2]
    by_cases ha : s.1 + 1 < p
    · simp only [ha, if_true]
      exact ⟨⟨trivial, by ring⟩, rfl⟩
    · simp only [ha, if_false]
      by_cases hb : s.1 + 1 = p
      · simp only [hb, if_true]
        have : (c * s.2 + c * x) / (p : Rat) = c * ((s.2 + x) / (p : Rat)) := by field_simp
        exact ⟨⟨trivial, this⟩, by simp [this]⟩
      · simp only [hb, if_false]
        exact ⟨⟨trivial, hu _ _⟩, by simp [hu]⟩
  · exact ⟨rfl, by simp⟩

/-! ### ranges -/

theorem gainOf_nonneg (ch : Rat) : 0 ≤ gainOf ch := by
  unfold gainOf; split <;> linarith
theorem lossOf_nonneg (ch : Rat) : 0 ≤ lossOf ch := by
  unfold lossOf; split <;> linarith

theorem wilderUpd_nonneg (p : Nat) (hp : 0 < p) (a x : Rat) (ha : 0 ≤ a) (hx : 0 ≤ x) : 0 ≤ wilderUpd p a x := by
  have hpR : (0 : Rat) < (p : Rat) := by exact_mod_cast hp
  have h1 : (1 : Rat) ≤ (p : Rat) := by exact_mod_cast hp
  unfold wilderUpd
  apply div_nonneg _ (le_of_lt hpR)
  nlinarith

/-- `100 - 100/(1 + g/l)` (100 when `l = 0`) lies in [0, 100] for non-negative averages -/
theorem rsiVal_range (g l : Rat) (hg : 0 ≤ g) (hl : 0 ≤ l) : 0 ≤ rsiVal g l ∧ rsiVal g l ≤ 100 := by
  unfold rsiVal
  split
  · constructor <;> norm_num
  · have hl' : 0 < l := lt_of_le_of_ne hl (Ne.symm ‹_›)
    have h1 : 1 ≤ 1 + g / l := by have := div_nonneg hg (le_of_lt hl'); linarith
    have h2 : 0 < 1 + g / l := by linarith
    have h3 : 100 / (1 + g / l) ≤ 100 := by rw [div_le_iff₀ h2]; nlinarith
    have h4 : 0 ≤ 100 / (1 + g / l) := div_nonneg (by norm_num) (le_of_lt h2)
    constructor <;> linarith

theorem mfiVal_range (a b : Rat) (ha : 0 ≤ a) (hb : 0 ≤ b) : 0 ≤ mfiVal a b ∧ mfiVal a b ≤ 100 := rsiVal_range a b ha hb

theorem mem_pmap {α β} (h : List α → β) (xs : List α) (y : β) (hy : y ∈ pmap h xs) :
    ∃ i, i < xs.length ∧ y = h (xs.take (i + 1)) := by
  unfold pmap at hy
  obtain ⟨i, hi, rfl⟩ := List.mem_map.mp hy
  exact ⟨i, by simpa using hi, rfl⟩

theorem sum_nonneg_of (l : List Rat) (h : ∀ x ∈ l, 0 ≤ x) : 0 ≤ Jesse.Ind.sum l := by
  induction l with
  | nil => simp [Jesse.Ind.sum]
  | cons a r ih =>
    show 0 ≤ a + Jesse.Ind.sum r
    have := ih (fun x hx => h x (List.mem_cons_of_mem _ hx))
    have := h a List.mem_cons_self
    linarith

theorem back_mem {α} (k : Nat) (pre : List α) (x : α) (h : back k pre = some x) : x ∈ pre := by
  unfold back at h
  split at h
  · exact List.mem_of_getElem? h
  · cases h

theorem mfiFlow_nonneg (pre : List Candle) (hv : ∀ k ∈ pre, 0 ≤ tpOf k ∧ 0 ≤ k.v) :
    0 ≤ (mfiFlow pre).1 ∧ 0 ≤ (mfiFlow pre).2 := by
  unfold mfiFlow
  cases h0 : back 0 pre with
  | none => simp
  | some k =>
    cases h1 : back 1 pre with
    | none => simp
    | some j =>
      have hk := hv k (back_mem 0 pre k h0)
      simp only
      constructor
      · split
        · exact mul_nonneg hk.1 hk.2
        · exact le_refl _
      · split
        · exact mul_nonneg hk.1 hk.2
        · exact le_refl _

theorem smooth_step (a s : Rat) (xs : List Rat) (i : Nat) (y x : Rat)
    (hy : (scanState (smoothStep a) s xs)[i]? = some y) (hx : xs[i + 1]? = some x) :
    (scanState (smoothStep a) s xs)[i + 1]? = some (emaUpd a y x) := by
  induction xs generalizing s i with
  | nil => simp at hx
  | cons z zs ih =>
    cases i with
    | zero =>
      simp only [scanState, List.getElem?_cons_zero, smoothStep] at hy
      cases zs with
      | nil => simp at hx
      | cons w ws =>
        simp only [List.getElem?_cons_succ, List.getElem?_cons_zero] at hx
        cases hx; cases hy
        simp [scanState, smoothStep]
    | succ i =>
      simp only [scanState, List.getElem?_cons_succ] at hy hx ⊢
      exact ih _ i hy hx

theorem wilders_step_lemma (p : Nat) (xs : List Rat) (i : Nat) (y x : Rat)
    (hy : (wilders p xs)[i]? = some (some y)) (hx : xs[i + 1]? = some x) :
    (wilders p xs)[i + 1]? = some (some (wilderUpd p y x)) := by
  unfold wilders at hy ⊢
  have key : ∀ (s : Option Rat) (zs : List Rat) (j : Nat), (scanState (wildersStep p) s zs)[j]? = some (some y) →
      zs[j + 1]? = some x → (scanState (wildersStep p) s zs)[j + 1]? = some (some (wilderUpd p y x)) := by
    intro s zs
    induction zs generalizing s with
    | nil => intro j _ h; simp at h
    | cons z zs ih =>
      intro j h1 h2
      cases j with
      | zero =>
        cases zs with
        | nil => simp at h2
        | cons w ws =>
          simp only [List.getElem?_cons_succ, List.getElem?_cons_zero] at h2
          cases h2
          cases s with
          | none =>
            simp only [scanState, wildersStep, List.getElem?_cons_zero] at h1
            cases h1
            simp [scanState, wildersStep]
          | some q =>
            simp only [scanState, wildersStep, List.getElem?_cons_zero] at h1
            cases h1
            simp [scanState, wildersStep]
      | succ j =>
        simp only [scanState, List.getElem?_cons_succ] at h1 h2 ⊢
        exact ih _ j h1 h2
  exact key none xs i hy hx

end Jesse.Ind
