/-
  Proofs/Lemmas/Wrapper.lean — helper lemmas about the wrapper convention (Jesse/Ind/Wrapper.lean).
-/
import Proofs.Lemmas.Causal
import Jesse.Ind.Wrapper

namespace Jesse.Ind

theorem lastN_of_le {α} (p : Nat) (xs : List α) (h : xs.length ≤ p) : lastN p xs = xs := by
  unfold lastN
  have : xs.length - p = 0 := by omega
  rw [this]; rfl

theorem length_lastN {α} (p : Nat) (xs : List α) : (lastN p xs).length = min p xs.length := by
  unfold lastN
  rw [List.length_drop]; omega

theorem sliceCandles_true {α} (cs : List α) : sliceCandles true cs = cs := by
  simp [sliceCandles]

theorem sliceCandles_false {α} (cs : List α) : sliceCandles false cs = lastN warmup cs := by
  unfold sliceCandles
  by_cases h : cs.length > warmup
  · simp [h]
  · simp [h]; exact (lastN_of_le _ _ (by omega)).symm

theorem lastN_lastN {α} (p : Nat) (xs : List α) : lastN p (lastN p xs) = lastN p xs :=
  lastN_of_le _ _ (by rw [length_lastN]; omega)

end Jesse.Ind
