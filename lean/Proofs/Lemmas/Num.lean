/-
  Proofs/Lemmas/Num.lean — helper lemmas about the numeric vocabulary of Jesse/Basic.lean.
  (single Mathlib modules only)
-/
import Jesse.Basic
import Mathlib.Algebra.Order.Field.Rat
import Mathlib.Tactic.Linarith
import Mathlib.Tactic.Positivity
import Mathlib.Tactic.FieldSimp
import Mathlib.Tactic.Ring

namespace Jesse

theorem pow10_pos (p : Int) : 0 < pow10 p := by
  unfold pow10
  split
  · positivity
  · positivity

theorem pow10_ne_zero (p : Int) : pow10 p ≠ 0 := ne_of_gt (pow10_pos p)

theorem pow10_nonneg_int (p : Int) (hp : 0 ≤ p) : pow10 p = (10 : Rat) ^ p.toNat := by
  unfold pow10; simp [hp]

theorem floorR_le (x : Rat) : floorR x ≤ x := Rat.floor_le x

theorem lt_floorR_add_one (x : Rat) : x < floorR x + 1 := by
  have h := Rat.lt_floor_add_one x
  unfold floorR
  push_cast at h
  exact h

theorem absR_eq_abs (x : Rat) : absR x = |x| := by
  unfold absR
  split
  · rw [abs_of_neg ‹_›]
  · rw [abs_of_nonneg (not_lt.mp ‹_›)]

theorem absR_nonneg (x : Rat) : 0 ≤ absR x := by rw [absR_eq_abs]; exact abs_nonneg x

theorem minR_eq_min (a b : Rat) : minR a b = min a b := by
  unfold minR
  split
  · rw [min_eq_right (le_of_lt ‹_›)]
  · rw [min_eq_left (not_lt.mp ‹_›)]

theorem maxR_eq_max (a b : Rat) : maxR a b = max a b := by
  unfold maxR
  split
  · rw [max_eq_right (le_of_lt ‹_›)]
  · rw [max_eq_left (not_lt.mp ‹_›)]

theorem minR_le_left (a b : Rat) : minR a b ≤ a := by rw [minR_eq_min]; exact min_le_left a b
theorem minR_le_right (a b : Rat) : minR a b ≤ b := by rw [minR_eq_min]; exact min_le_right a b

/-- `floor(x·s)/s` is at most `x` and within one step `1/s` below it (s > 0). -/
theorem floor_scaled_le (x s : Rat) (hs : 0 < s) : floorR (x * s) / s ≤ x := by
  rw [div_le_iff₀ hs]; exact floorR_le _

theorem lt_floor_scaled_add (x s : Rat) (hs : 0 < s) : x - 1 / s < floorR (x * s) / s := by
  have h := lt_floorR_add_one (x * s)
  rw [lt_div_iff₀ hs]
  have : (x - 1 / s) * s = x * s - 1 := by field_simp
  rw [this]; linarith

end Jesse
