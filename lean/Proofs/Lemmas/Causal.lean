/-
  Proofs/Lemmas/Causal.lean — causality (no look-ahead) and length preservation of series
  functions, with closure lemmas for the kernel combinators of Jesse/Ind/Core.lean.
  Core Lean only.
-/
import Jesse.Ind.Core

namespace Jesse.Ind

/-- `f` is causal: the first `k` outputs depend only on the first `k` inputs, for every `k`.
    (C13: "the series computed on a prefix equals the prefix of the series computed on the full input".) -/
def Causal {α β} (f : List α → List β) : Prop :=
  ∀ xs ys k, xs.take k = ys.take k → (f xs).take k = (f ys).take k

/-- one output per input -/
def LenPres {α β} (f : List α → List β) : Prop := ∀ xs, (f xs).length = xs.length

/-- the C13 reading: computing on the prefix `xs[:k]` gives the prefix of the full result -/
theorem Causal.prefix_eq {α β} {f : List α → List β} (hc : Causal f) (hl : LenPres f) (xs : List α) (k : Nat) :
    f (xs.take k) = (f xs).take k := by
  have h := hc (xs.take k) xs k (by rw [List.take_take, Nat.min_self])
  rw [← h]
  have hlen : (f (xs.take k)).length ≤ k := by rw [hl]; simp [List.length_take]; omega
  exact (List.take_of_length_le hlen).symm

/-! ### closure lemmas -/

theorem causal_id {α} : Causal (fun xs : List α => xs) := fun _ _ _ h => h

theorem causal_map {α β} (h : α → β) : Causal (List.map h) := by
  intro xs ys k hk
  rw [← List.map_take, ← List.map_take, hk]

theorem causal_comp {α β γ} {f : List α → List β} {g : List β → List γ} (hf : Causal f) (hg : Causal g) :
    Causal (fun xs => g (f xs)) := fun xs ys k h => hg _ _ k (hf xs ys k h)

theorem causal_zipWith {α β γ δ} (h : β → γ → δ) {f : List α → List β} {g : List α → List γ}
    (hf : Causal f) (hg : Causal g) : Causal (fun xs => List.zipWith h (f xs) (g xs)) := by
  intro xs ys k hk
  simp only [List.take_zipWith]
  rw [hf xs ys k hk, hg xs ys k hk]

theorem scanState_take {σ α β} (step : σ → α → σ × β) (s : σ) (xs : List α) (k : Nat) :
    (scanState step s xs).take k = scanState step s (xs.take k) := by
  induction xs generalizing s k with
  | nil => simp [scanState]
  | cons x xs ih =>
    cases k with
    | zero => simp [scanState]
    | succ k => simp [scanState, ih]

/-- a left-to-right loop is causal whatever the step and the (input-independent) initial state -/
theorem causal_scanState {σ α β} (step : σ → α → σ × β) (s : σ) : Causal (scanState step s) := by
  intro xs ys k hk
  rw [scanState_take, scanState_take, hk]

theorem length_scanState {σ α β} (step : σ → α → σ × β) (s : σ) (xs : List α) :
    (scanState step s xs).length = xs.length := by
  induction xs generalizing s with
  | nil => rfl
  | cons x xs ih => simp [scanState, ih]

theorem lenPres_scanState {σ α β} (step : σ → α → σ × β) (s : σ) : LenPres (scanState step s) :=
  fun xs => length_scanState step s xs

theorem length_pmap {α β} (h : List α → β) (xs : List α) : (pmap h xs).length = xs.length := by
  simp [pmap]

theorem pmap_take {α β} (h : List α → β) (xs : List α) (k : Nat) :
    (pmap h xs).take k = pmap h (xs.take k) := by
  unfold pmap
  rw [← List.map_take, List.take_range, List.length_take]
  apply List.map_congr_left
  intro i hi
  have hi' : i < min k xs.length := by simpa using hi
  rw [List.take_take]
  congr 2
  omega

/-- anything of the form `out[i] = h(xs[:i+1])` is causal -/
theorem causal_pmap {α β} (h : List α → β) : Causal (pmap h) := by
  intro xs ys k hk
  rw [pmap_take, pmap_take, hk]

theorem lenPres_pmap {α β} (h : List α → β) : LenPres (pmap h) := fun xs => length_pmap h xs

/-- trailing-window folds are causal -/
theorem causal_trailing {α β} (p : Nat) (g : List α → Option β) : Causal (trailing p g) :=
  causal_pmap _

theorem lenPres_trailing {α β} (p : Nat) (g : List α → Option β) : LenPres (trailing p g) :=
  lenPres_pmap _

theorem length_imap {α β} (g : List α → Nat → β) (xs : List α) : (imap g xs).length = xs.length := by
  simp [imap]

theorem lenPres_imap {α β} (g : List α → Nat → β) : LenPres (imap g) := fun xs => length_imap g xs

/-- an index-style loop is causal when row `i` reads only rows `≤ i` -/
theorem causal_imap {α β} (g : List α → Nat → β)
    (hloc : ∀ xs ys i, i < xs.length → i < ys.length → xs.take (i + 1) = ys.take (i + 1) → g xs i = g ys i) :
    Causal (imap g) := by
  intro xs ys k hk
  unfold imap
  rw [← List.map_take, ← List.map_take, List.take_range, List.take_range]
  have hlen : min k xs.length = min k ys.length := by
    have := congrArg List.length hk
    simpa [List.length_take] using this
  rw [← hlen]
  apply List.map_congr_left
  intro i hi
  have hi' : i < min k xs.length := by simpa using hi
  apply hloc
  · omega
  · omega
  · have h1 : (xs.take k).take (i + 1) = (ys.take k).take (i + 1) := by rw [hk]
    rw [List.take_take, List.take_take] at h1
    have : min (i + 1) k = i + 1 := by omega
    rwa [this] at h1

theorem length_shiftR {α} (k : Nat) (fill : α) (xs : List α) : (shiftR k fill xs).length = xs.length := by
  simp [shiftR]

theorem lenPres_shiftR {α} (k : Nat) (fill : α) : LenPres (shiftR k fill) := fun xs => length_shiftR k fill xs

/-- right shifts (reading `x[i-k]`, padding the front) are causal -/
theorem causal_shiftR {α} (k : Nat) (fill : α) : Causal (shiftR k fill) := by
  intro xs ys m hm
  have hlen : min m xs.length = min m ys.length := by
    have := congrArg List.length hm
    simpa [List.length_take] using this
  unfold shiftR
  rw [List.take_take, List.take_take, ← hlen]
  rw [List.take_append, List.take_append]
  congr 1
  have h1 : (xs.take m).take (min m xs.length - (List.replicate k fill).length)
      = (ys.take m).take (min m xs.length - (List.replicate k fill).length) := by rw [hm]
  rw [List.take_take, List.take_take] at h1
  have : min (min m xs.length - (List.replicate k fill).length) m
      = min m xs.length - (List.replicate k fill).length := by omega
  rwa [this] at h1

theorem lenPres_map {α β} (h : α → β) : LenPres (List.map h) := fun xs => by simp

theorem lenPres_comp {α β γ} {f : List α → List β} {g : List β → List γ} (hf : LenPres f) (hg : LenPres g) :
    LenPres (fun xs => g (f xs)) := fun xs => by rw [hg, hf]

theorem lenPres_zipWith {α β γ δ} (h : β → γ → δ) {f : List α → List β} {g : List α → List γ}
    (hf : LenPres f) (hg : LenPres g) : LenPres (fun xs => List.zipWith h (f xs) (g xs)) := fun xs => by
  simp [hf xs, hg xs]

/-- a kernel applied to a candle source is causal when the kernel is -/
theorem causal_on_source {β} {K : List Rat → List β} (hK : Causal K) (s : Source) :
    Causal (fun cs => K (source s cs)) :=
  causal_comp (f := source s) (causal_map s.get) hK

theorem lenPres_on_source {β} {K : List Rat → List β} (hK : LenPres K) (s : Source) :
    LenPres (fun cs => K (source s cs)) :=
  lenPres_comp (f := source s) (lenPres_map s.get) hK

end Jesse.Ind
