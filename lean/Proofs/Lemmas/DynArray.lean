/-
  Proofs/Lemmas/DynArray.lean — helper lemmas for C18 (core Lean only).
-/
import Jesse.DynArray
import Spec.ListArray

namespace Jesse.DynArray
open Jesse

/-- the invariant of the backing array: the logical length fits, the capacity never falls below
    one bucket, and the bucket is positive -/
structure Inv (a : DynArray) : Prop where
  idx : -1 ≤ a.index
  fits : (a.index + 1).toNat ≤ a.array.length
  bpos : 0 < a.bucket
  cap : a.bucket ≤ a.array.length

/-- logical length as a natural number -/
def n (a : DynArray) : Nat := (a.index + 1).toNat

theorem n_cast (a : DynArray) (h : Inv a) : ((a.n : Nat) : Int) = a.index + 1 := by
  unfold n; have := h.idx; omega

theorem abs_length (a : DynArray) (h : Inv a) : a.abs.length = a.n := by
  have := h.fits
  unfold abs n; simp [List.length_take]; omega

theorem abs_getElem? (a : DynArray) (k : Nat) (hk : k < a.n) : a.abs[k]? = a.array[k]? := by
  unfold abs; rw [List.getElem?_take]; simp [show k < (a.index + 1).toNat from hk]

theorem zeros_length (m w : Nat) : (zeros m w).length = m := by simp [zeros]

/-- resolving an index against the logical length agrees with Python's list index normalisation -/
theorem resolve_some (a : DynArray) (h : Inv a) (i : Int) (k : Nat) (hk : Py.normIdx a.n i = some k) :
    ¬ (a.index = -1 ∨ a.resolve i > a.index ∨ a.resolve i < 0) ∧ a.resolve i = (k : Int) ∧ k < a.n := by
  have hc := n_cast a h
  have := h.idx
  unfold Py.normIdx at hk
  unfold resolve
  by_cases h0 : 0 ≤ i
  · have hn : ¬ i < 0 := by omega
    simp only [h0, if_true] at hk
    by_cases h1 : i.toNat < a.n
    · simp only [h1, if_true, Option.some.injEq] at hk
      simp only [hn, if_false]
      refine ⟨?_, by omega, by omega⟩
      intro hh
      rcases hh with hh | hh | hh <;> first | omega | exact hh
    · simp [h1] at hk
  · have hn : i < 0 := by omega
    simp only [h0, if_false] at hk
    by_cases h1 : (-i).toNat ≤ a.n
    · simp only [h1, if_true, Option.some.injEq] at hk
      simp only [hn, if_true]
      refine ⟨?_, by omega, by omega⟩
      intro hh
      rcases hh with hh | hh | hh <;> first | omega | exact hh
    · simp [h1] at hk

theorem resolve_none (a : DynArray) (h : Inv a) (i : Int) (hk : Py.normIdx a.n i = none) :
    (a.index = -1 ∨ a.resolve i > a.index ∨ a.resolve i < 0) := by
  have hc := n_cast a h
  have := h.idx
  unfold Py.normIdx at hk
  unfold resolve
  by_cases h0 : 0 ≤ i
  · have hn : ¬ i < 0 := by omega
    simp only [h0, if_true] at hk
    by_cases h1 : i.toNat < a.n
    · simp [h1] at hk
    · simp only [hn, if_false]; omega
  · have hn : i < 0 := by omega
    simp only [h0, if_false] at hk
    by_cases h1 : (-i).toNat ≤ a.n
    · simp [h1] at hk
    · simp only [hn, if_true]; omega

theorem getIdx_array_of_lt (a : DynArray) (h : Inv a) (k : Nat) (hk : k < a.n) :
    Py.getIdx a.array (k : Int) = a.array[k]? := by
  have := h.fits
  unfold Py.getIdx Py.normIdx
  have h1 : k < a.array.length := by unfold n at hk; omega
  simp [h1]

theorem normIdx_array_of_lt (a : DynArray) (h : Inv a) (k : Nat) (hk : k < a.n) :
    Py.normIdx a.array.length (k : Int) = some k := by
  have := h.fits
  unfold Py.normIdx
  have h1 : k < a.array.length := by unfold n at hk; omega
  simp [h1]

theorem take_set_lt {α} (l : List α) (m k : Nat) (x : α) (hk : k < m) :
    (l.set k x).take m = (l.take m).set k x := by
  rw [List.take_set]

theorem take_eraseIdx_lt {α} (l : List α) (m k : Nat) (hk : k < m) (hm : m ≤ l.length) :
    (l.eraseIdx k).take (m - 1) = (l.take m).eraseIdx k := by
  induction l generalizing m k with
  | nil => simp
  | cons x xs ih =>
    cases k with
    | zero =>
      cases m with
      | zero => omega
      | succ m' => simp
    | succ k' =>
      cases m with
      | zero => omega
      | succ m' =>
        simp only [List.eraseIdx_cons_succ, List.take_succ_cons]
        have : m' + 1 - 1 = (m' - 1) + 1 := by omega
        rw [this, List.take_succ_cons]
        congr 1
        exact ih m' k' (by omega) (by simp at hm; omega)

theorem take_set_succ {α} (l : List α) (m : Nat) (x : α) (hm : m < l.length) :
    (l.set m x).take (m + 1) = l.take m ++ [x] := by
  induction l generalizing m with
  | nil => simp at hm
  | cons y ys ih =>
    cases m with
    | zero => simp
    | succ m' =>
      simp only [List.set_cons_succ, List.take_succ_cons, List.cons_append]
      congr 1
      exact ih m' (by simpa using hm)

theorem slice_take {α} (L : List α) (m A B : Nat) (hB : B ≤ m) :
    ((L.take m).drop A).take (B - A) = (L.drop A).take (B - A) := by
  rw [List.drop_take, List.take_take]
  congr 1
  omega

/-- the normalised bounds of `__getitem__(slice)` clamp, on the backing array, to the same positions
    as Python's list slicing on the logical rows -/
theorem sliceBounds_spec (a : DynArray) (h : Inv a) (s e : Option Int) :
    let b := a.sliceBounds s e
    let A := Py.startIdx a.n s
    let B := Py.stopIdx a.n e
    Py.clampIdx a.array.length b.2 = B ∧ B ≤ a.n ∧
      (Py.clampIdx a.array.length b.1 = A ∨ (A = a.n ∧ a.n ≤ Py.clampIdx a.array.length b.1)) := by
  have hc := n_cast a h
  have hf := h.fits
  have hi := h.idx
  have hn : a.n ≤ a.array.length := hf
  cases s <;> cases e <;>
    simp only [sliceBounds, Option.getD_none, Option.getD_some, Py.clampIdx, Py.startIdx, Py.stopIdx] <;>
    (refine ⟨?_, ?_, ?_⟩ <;> (repeat' split) <;> omega)

/-! ### growth, drop and write steps -/

theorem grow_take (a : DynArray) (h : Inv a) (i1 : Int) (extra : Nat) :
    (a.grow i1 extra).take a.n = a.abs := by
  have hf : a.n ≤ a.array.length := h.fits
  unfold grow
  split
  · rw [List.take_append_of_le_length hf]; rfl
  · rfl

/-- after the growth step of `append`, the write position is inside the array -/
theorem grow_append_lt (a : DynArray) (h : Inv a) :
    a.n < (a.grow (a.index + 1) a.bucket).length ∧ a.bucket ≤ (a.grow (a.index + 1) a.bucket).length := by
  have hf := h.fits
  have hc := n_cast a h
  have hcap := h.cap
  have hbp := h.bpos
  have hi := h.idx
  unfold grow
  split
  · simp [zeros_length]; unfold n at *; omega
  · unfold n at *; omega

/-- after the growth step of `append_multiple` (no drop), all new rows fit -/
theorem grow_appendMultiple_le (a : DynArray) (h : Inv a) (m : Nat) :
    a.n + m ≤ (a.grow (a.index + m) (max m a.bucket)).length ∧
    a.bucket ≤ (a.grow (a.index + m) (max m a.bucket)).length := by
  have hf := h.fits
  have hc := n_cast a h
  have hcap := h.cap
  have hbp := h.bpos
  have hi := h.idx
  unfold grow
  split
  · simp [zeros_length]; unfold n at *; omega
  · unfold n at *; omega

theorem dropStep_none (a : DynArray) (hd : a.dropAt = none) (i1 : Int) (arr : List Row) :
    a.dropStep i1 arr = (i1, arr) := by
  simp [dropStep, hd]

theorem dropStep_fire (a : DynArray) (d : Nat) (hd : a.dropAt = some d) (i1 : Int) (arr : List Row)
    (hc : i1 ≠ 0 ∧ (i1 + 1) % (d : Int) = 0) :
    a.dropStep i1 arr = (i1 - ((d / 2 : Nat) : Int), Py.shiftLeft arr (d / 2) (zeroRow a.width)) := by
  simp [dropStep, hd, hc]

theorem dropStep_nofire (a : DynArray) (d : Nat) (hd : a.dropAt = some d) (i1 : Int) (arr : List Row)
    (hc : ¬ (i1 ≠ 0 ∧ (i1 + 1) % (d : Int) = 0)) :
    a.dropStep i1 arr = (i1, arr) := by
  simp only [dropStep, hd, hc, if_false]

theorem writeRow_ok (a : DynArray) (k : Nat) (arr : List Row) (r : Row) (hk : k < arr.length) :
    a.writeRow (k : Int) arr r = .ok { a with index := (k : Int), array := arr.set k r } := by
  have : Py.normIdx arr.length (k : Int) = some k := by unfold Py.normIdx; simp [hk]
  simp [writeRow, this]

theorem shiftLeft_small {α} (xs : List α) (k : Nat) (fill : α) (hk : k < xs.length) :
    (Py.shiftLeft xs k fill).length = xs.length ∧
    ∀ m, m + k ≤ xs.length → (Py.shiftLeft xs k fill).take m = (xs.drop k).take m := by
  unfold Py.shiftLeft
  split
  · rename_i h0; subst h0; simp
  · have : ¬ k ≥ xs.length := by omega
    simp only [this, if_false]
    refine ⟨by simp; omega, ?_⟩
    intro m hm
    rw [List.take_append_of_le_length (by simp; omega)]

theorem clampIdx_of_le (len m : Nat) (h : m ≤ len) : Py.clampIdx len (m : Int) = m := by
  unfold Py.clampIdx
  have : ¬ ((m : Int) < 0) := by omega
  simp only [this, if_false]
  split <;> omega

/-- NumPy slice assignment of exactly as many rows as the slice `[m : m+k]` holds -/
theorem npAssign_exact (xs : List Row) (m k : Nat) (items : List Row) (hk : items.length = k)
    (hfit : m + k ≤ xs.length) :
    npAssign xs (m : Int) ((m : Int) + k) items = some (xs.take m ++ items ++ xs.drop (m + k)) := by
  have e1 : Py.startIdx xs.length (some (m : Int)) = m := clampIdx_of_le _ _ (by omega)
  have e2 : Py.stopIdx xs.length (some ((m : Int) + k)) = m + k := by
    have := clampIdx_of_le xs.length (m + k) hfit
    simpa [Py.stopIdx] using this
  have hlen : (Py.slice xs (some (m : Int)) (some ((m : Int) + k))).length = k := by
    simp only [Py.slice, e1, e2, List.length_take, List.length_drop]; omega
  unfold npAssign
  simp only [hlen, hk, if_true]
  simp only [Py.setSlice, e1, e2, hk]
  have : m + k - m = k := by omega
  simp [this]

/-! ### slice assignment -/


theorem clampIdx_spec (n : Nat) (i : Int) :
    (i < 0 → ((Py.clampIdx n i : Nat) : Int) = max (i + n) 0) ∧ (0 ≤ i → ((Py.clampIdx n i : Nat) : Int) = min i n) := by
  unfold Py.clampIdx
  constructor
  · intro h
    simp only [h, if_true]
    split <;> omega
  · intro h
    have : ¬ i < 0 := by omega
    simp only [this, if_false]
    split <;> omega

/-- the stop bound `__setitem__(slice)` computes -/
def stopOf (e : Option Int) (start1 : Int) (k : Nat) (idx : Int) : Int :=
  match e with
  | none => start1 + (k : Int)
  | some x => min (if x < 0 then max ((idx + 1) + x) 0 else x) (idx + 1)

/-- numeric facts about the bounds `__setitem__(slice)` computes, for an assignment of as many rows as the
    list slice holds (`N` logical length, `L` backing length, `idx = N - 1`) -/
theorem setSlice_bounds (N L : Nat) (idx : Int) (hc : (N : Int) = idx + 1) (hn : N ≤ L) (s e : Option Int) (k : Nat)
    (hk : k = Py.stopIdx N e - Py.startIdx N s) (start1 stop2 : Int)
    (h1 : start1 = if s.getD 0 < 0 then max ((idx + 1) + s.getD 0) 0 else s.getD 0)
    (h2 : stop2 = stopOf e start1 k idx) :
    Py.clampIdx L stop2 - Py.clampIdx L start1 = k ∧
    (k = 0 ∨ (Py.clampIdx L start1 = Py.startIdx N s ∧ Py.startIdx N s + k ≤ N)) := by
  obtain ⟨c1a, c1b⟩ := clampIdx_spec L start1
  obtain ⟨c2a, c2b⟩ := clampIdx_spec L stop2
  cases s with
  | none =>
    simp only [Option.getD_none] at h1
    have hs0 : start1 = 0 := by rw [h1]; simp
    cases e with
    | none =>
      simp only [Py.startIdx, Py.stopIdx, stopOf] at hk h2 ⊢
      omega
    | some x =>
      obtain ⟨d1, d2⟩ := clampIdx_spec N x
      simp only [Py.startIdx, Py.stopIdx, stopOf] at hk h2 ⊢
      by_cases hx : x < 0
      · simp only [hx, if_true] at h2; have := d1 hx; omega
      · simp only [hx, if_false] at h2; have := d2 (by omega); omega
  | some y =>
    obtain ⟨f1, f2⟩ := clampIdx_spec N y
    simp only [Option.getD_some] at h1
    cases e with
    | none =>
      simp only [Py.startIdx, Py.stopIdx, stopOf] at hk h2 ⊢
      by_cases hy : y < 0
      · simp only [hy, if_true] at h1; have := f1 hy; omega
      · simp only [hy, if_false] at h1; have := f2 (by omega); omega
    | some x =>
      obtain ⟨d1, d2⟩ := clampIdx_spec N x
      simp only [Py.startIdx, Py.stopIdx, stopOf] at hk h2 ⊢
      by_cases hy : y < 0 <;> by_cases hx : x < 0
      · simp only [hy, hx, if_true] at h1 h2; have := f1 hy; have := d1 hx; omega
      · simp only [hy, hx, if_true, if_false] at h1 h2; have := f1 hy; have := d2 (by omega); omega
      · simp only [hy, hx, if_true, if_false] at h1 h2; have := f2 (by omega); have := d1 hx; omega
      · simp only [hy, hx, if_false] at h1 h2; have := f2 (by omega); have := d2 (by omega); omega


def startOf (s : Option Int) (idx : Int) : Int :=
  if s.getD 0 < 0 then max ((idx + 1) + s.getD 0) 0 else s.getD 0

theorem setSlice_unfold (a : DynArray) (s e : Option Int) (items : List Row) :
    a.setSlice s e items =
      (match npAssign a.array (startOf s a.index) (stopOf e (startOf s a.index) items.length a.index) items with
       | some arr => .ok { a with array := arr }
       | none => .error .ValueError) := by
  unfold DynArray.setSlice stopOf startOf
  cases e <;> rfl

theorem clampIdx_le (n : Nat) (i : Int) : Py.clampIdx n i ≤ n := by
  unfold Py.clampIdx; split <;> split <;> omega


end Jesse.DynArray
