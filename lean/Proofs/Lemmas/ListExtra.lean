/-
  Proofs/Lemmas/ListExtra.lean — small list lemmas missing from core.
-/
namespace ListExtra

theorem reverse_set_reverse {α} (l : List α) (k : Nat) (c : α) (hk : k < l.length) :
    (l.reverse.set (l.length - 1 - k) c).reverse = l.set k c := by
  apply List.ext_getElem?
  intro i
  by_cases hi : i < l.length
  · rw [List.getElem?_reverse (by simp; exact hi)]
    simp only [List.length_set, List.length_reverse]
    rw [List.getElem?_set, List.getElem?_set]
    by_cases hik : i = k
    · subst hik
      have : l.length - 1 - i = l.length - 1 - i := rfl
      simp [hi]
      omega
    · have h1 : ¬ (l.length - 1 - k = l.length - 1 - i) := by omega
      have h2 : ¬ (k = i) := fun h => hik h.symm
      simp only [h1, h2, if_false]
      rw [List.getElem?_reverse (by omega)]
      congr 1; omega
  · rw [List.getElem?_eq_none (by simp; omega), List.getElem?_eq_none (by simp; omega)]

end ListExtra
