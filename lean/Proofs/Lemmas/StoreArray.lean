/-
  Proofs/Lemmas/StoreArray.lean — helper lemmas for the composition "candle store on the array class = candle store
  on a list" (Proofs/C20.lean): the row-level list algorithm, its relation to the candle-level one through `enc`,
  and the refinement of the from-the-end search loop.
-/
import Jesse.StoreD
import Spec.ListArray
import Proofs.Lemmas.DynArray
import Proofs.C18

namespace StoreArray
open Jesse Jesse.StoreD Jesse.DynArray

/-! ### the list algorithm on rows (key = first field) -/

def replaceFirstR : List Row → Row → List Row
  | [], _ => []
  | x :: xs, r => if ts x = ts r then r :: xs else x :: replaceFirstR xs r

def replaceFromEndR (l : List Row) (r : Row) : List Row := (replaceFirstR l.reverse r).reverse

theorem ts_enc (c : Candle) : ts (enc c) = (c.ts : Rat) := rfl

theorem replaceFirstR_map (arr : List Candle) (c : Candle) :
    replaceFirstR (arr.map enc) (enc c) = (Store.replaceFirst arr c).map enc := by
  induction arr with
  | nil => rfl
  | cons x xs ih =>
    simp only [List.map_cons, replaceFirstR, Store.replaceFirst, ts_enc, Rat.intCast_inj]
    by_cases h : x.ts = c.ts
    · simp [h]
    · simp [h, ih]

theorem replaceFromEndR_map (arr : List Candle) (c : Candle) :
    replaceFromEndR (arr.map enc) (enc c) = (Store.replaceFromEnd arr c).map enc := by
  unfold replaceFromEndR Store.replaceFromEnd
  rw [← List.map_reverse, replaceFirstR_map, List.map_reverse]

theorem replaceFirstR_nomatch (s : List Row) (r : Row) (h : ∀ x ∈ s, ts x ≠ ts r) : replaceFirstR s r = s := by
  induction s with
  | nil => rfl
  | cons x xs ih =>
    have hx : ts x ≠ ts r := h x (List.mem_cons_self)
    simp only [replaceFirstR, hx, if_false]
    rw [ih (fun y hy => h y (List.mem_cons_of_mem _ hy))]

theorem replaceFirstR_at (s t : List Row) (x r : Row) (h : ∀ y ∈ s, ts y ≠ ts r) (hx : ts x = ts r) :
    replaceFirstR (s ++ x :: t) r = s ++ r :: t := by
  induction s with
  | nil => simp [replaceFirstR, hx]
  | cons y ys ih =>
    have hy : ts y ≠ ts r := h y (List.mem_cons_self)
    simp only [List.cons_append, replaceFirstR, hy, if_false]
    rw [ih (fun z hz => h z (List.mem_cons_of_mem _ hz))]

/-- no row carries the timestamp: the search changes nothing -/
theorem replaceFromEndR_nomatch (l : List Row) (r : Row) (h : ∀ x ∈ l, ts x ≠ ts r) : replaceFromEndR l r = l := by
  unfold replaceFromEndR
  rw [replaceFirstR_nomatch _ _ (fun x hx => h x (List.mem_reverse.mp hx)), List.reverse_reverse]

/-- the LAST row that carries the timestamp is at `k`: the search replaces exactly that row -/
theorem replaceFromEndR_at (l : List Row) (r x : Row) (k : Nat) (hk : l[k]? = some x) (hx : ts x = ts r)
    (hno : ∀ y ∈ l.drop (k + 1), ts y ≠ ts r) : replaceFromEndR l r = l.set k r := by
  have hlt : k < l.length := by
    rcases Nat.lt_or_ge k l.length with h | h
    · exact h
    · rw [List.getElem?_eq_none h] at hk; exact absurd hk (by simp)
  have hsplit : l = l.take k ++ x :: l.drop (k + 1) := by
    have h1 : l.drop k = x :: l.drop (k + 1) := by
      rw [List.drop_eq_getElem_cons hlt]
      have : l[k] = x := by
        have := List.getElem?_eq_getElem hlt
        rw [this] at hk; exact Option.some.inj hk
      rw [this]
    conv => lhs; rw [← List.take_append_drop k l, h1]
  unfold replaceFromEndR
  have hrev : l.reverse = (l.drop (k + 1)).reverse ++ x :: (l.take k).reverse := by
    conv => lhs; rw [hsplit]
    simp [List.reverse_append]
  rw [hrev, replaceFirstR_at _ _ _ _ (fun y hy => hno y (List.mem_reverse.mp hy)) hx]
  simp only [List.reverse_append, List.reverse_cons, List.reverse_reverse, List.append_assoc, List.singleton_append]
  rw [List.set_eq_take_append_cons_drop]
  simp [hlt]

/-! ### Python's negative indices on a list -/

theorem normIdx_neg (n i : Nat) (hi : 1 ≤ i) (hin : i ≤ n) : Py.normIdx n (-(i : Int)) = some (n - i) := by
  unfold Py.normIdx
  have h1 : ¬ (0 : Int) ≤ -(i : Int) := by omega
  have h2 : (-(-(i : Int))).toNat = i := by omega
  simp only [h1, if_false, h2, hin, if_true]

theorem getIdx_neg_one {α} (l : List α) : Py.getIdx l (-1) = l.getLast? := by
  unfold Py.getIdx
  cases l with
  | nil => simp [Py.normIdx]
  | cons x xs =>
    have := normIdx_neg (x :: xs).length 1 (Nat.le_refl 1) (by simp)
    simp only [Int.natCast_one] at this
    rw [this, List.getLast?_eq_getElem?]

theorem set_last {α} (l : List α) (r : α) (hne : l ≠ []) : l.set (l.length - 1) r = l.dropLast ++ [r] := by
  have hpos : 0 < l.length := List.length_pos_iff.mpr hne
  rw [List.set_eq_take_append_cons_drop]
  have h1 : l.length - 1 < l.length := by omega
  simp only [h1, if_true]
  rw [List.dropLast_eq_take]
  have : l.length - 1 + 1 = l.length := by omega
  rw [this, List.drop_length]

theorem getIdx_map {α β} (f : α → β) (l : List α) (i : Int) : Py.getIdx (l.map f) i = (Py.getIdx l i).map f := by
  unfold Py.getIdx
  rw [List.length_map]
  cases Py.normIdx l.length i with
  | none => rfl
  | some k => simp

theorem clampIdx_neg (n k : Nat) (hk : k ≤ n) (hk1 : 1 ≤ k) : Py.clampIdx n (-(k : Int)) = n - k := by
  unfold Py.clampIdx
  have h1 : -(k : Int) < 0 := by omega
  have h2 : ¬ (-(k : Int) + (n : Int) < 0) := by omega
  simp only [h1, if_true, h2, if_false]
  omega

/-- `l[-k:]` has `k` items and `l[-k:] = items` (as many items) replaces exactly the last `k` -/
theorem slice_tail_length {α} (l : List α) (k : Nat) (hk : k ≤ l.length) (hk1 : 1 ≤ k) :
    (Py.slice l (some (-(k : Int))) none).length = k := by
  simp only [Py.slice, Py.startIdx, Py.stopIdx, clampIdx_neg _ _ hk hk1, List.length_take, List.length_drop]
  omega

theorem setSlice_tail {α} (l items : List α) (k : Nat) (hk : k ≤ l.length) (hk1 : 1 ≤ k) (hlen : items.length = k) :
    Py.setSlice l (some (-(k : Int))) none items = some (l.take (l.length - k) ++ items) := by
  simp only [Py.setSlice, Py.startIdx, Py.stopIdx, clampIdx_neg _ _ hk hk1]
  have h1 : l.length - (l.length - k) = items.length := by omega
  have h2 : l.length - k + items.length = l.length := by omega
  simp only [h1, if_true, h2, List.drop_length, List.append_nil]

/-! ### the search loop on the array -/

/-- the loop of `add_candle` that looks for an older candle, run on the array from step `i` with the rows behind
    `-i` already seen not to match: it succeeds, and the logical content becomes what the list search yields -/
theorem replaceLoop_refines (r : Row) (fuel : Nat) : ∀ (a : DynArray) (i : Nat), Inv a → 1 ≤ i →
    fuel + i = a.abs.length + 1 →
    (∀ y ∈ a.abs.drop (a.abs.length + 1 - i), ts y ≠ ts r) →
    ∃ a', replaceLoop a r fuel i = .ok a' ∧ a'.abs = replaceFromEndR a.abs r ∧ Inv a' := by
  induction fuel with
  | zero =>
    intro a i h _ hfi hno
    refine ⟨a, rfl, ?_, h⟩
    have : a.abs.length + 1 - i = 0 := by omega
    rw [this, List.drop_zero] at hno
    rw [replaceFromEndR_nomatch _ _ hno]
  | succ fuel ih =>
    intro a i h hi hfi hno
    have hin : i ≤ a.abs.length := by omega
    have hn := normIdx_neg a.abs.length i hi hin
    have hlt : a.abs.length - i < a.abs.length := by omega
    have hget := C18.refines_getItem a h (-(i : Int))
    unfold Py.getIdx at hget
    rw [hn] at hget
    simp only [List.getElem?_eq_getElem hlt] at hget
    unfold replaceLoop
    rw [hget]
    simp only
    by_cases hx : ts (a.abs[a.abs.length - i]) = ts r
    · simp only [hx, if_true]
      have hset := C18.refines_setItem a h (-(i : Int)) r
      rw [hn] at hset
      obtain ⟨a', hok, habs, hinv⟩ := hset
      refine ⟨a', hok, ?_, hinv⟩
      rw [habs]
      symm
      apply replaceFromEndR_at _ _ _ _ (List.getElem?_eq_getElem hlt) hx
      have : a.abs.length - i + 1 = a.abs.length + 1 - i := by omega
      rw [this]; exact hno
    · simp only [hx, if_false]
      apply ih a (i + 1) h (by omega) (by omega)
      intro y hy
      have hd : a.abs.length + 1 - (i + 1) = a.abs.length - i := by omega
      rw [hd, List.drop_eq_getElem_cons hlt] at hy
      rcases List.mem_cons.mp hy with h1 | h1
      · rw [h1]; exact hx
      · have : a.abs.length - i + 1 = a.abs.length + 1 - i := by omega
        rw [this] at h1; exact hno y h1

end StoreArray
