/-
  Proofs/Lemmas/StoreProto.lean — helper lemmas for the store protocol of C07 (how the simulators write the
  candle store): index arithmetic of the forming window, the last visible candle, timestamps of visible candles.
-/
import Jesse.Store
import Spec.Aggregate
import Proofs.Lemmas.Aggregate
import Proofs.Lemmas.Num

namespace StoreProto
open Jesse Jesse.Store Spec AggLemmas

/-- number of complete windows BEFORE the window that contains the last stored minute -/
def k0 (m : Nat) (short : List Candle) : Nat := (short.length - 1) / m

theorem k0_mul_lt (m : Nat) (short : List Candle) (hm : 0 < m) (hne : short ≠ []) :
    k0 m short * m < short.length := by
  have hpos : 0 < short.length := List.length_pos_iff.mpr hne
  have := Nat.div_mul_le_self (short.length - 1) m
  unfold k0; omega

theorem window_len_le (m : Nat) (short : List Candle) (hm : 0 < m) :
    short.length - k0 m short * m ≤ m := by
  have h1 := Nat.div_add_mod (short.length - 1) m
  have h2 := Nat.mod_lt (short.length - 1) hm
  unfold k0
  rw [Nat.mul_comm] at h1
  omega

/-- on a window boundary the last window is complete: `k0 + 1` windows in all -/
theorem k0_of_boundary (m : Nat) (short : List Candle) (hm : 0 < m) (hne : short ≠ [])
    (hb : short.length % m = 0) : short.length / m = k0 m short + 1 ∧ (k0 m short + 1) * m = short.length := by
  have hpos : 0 < short.length := List.length_pos_iff.mpr hne
  have h1 := Nat.div_add_mod short.length m
  rw [hb, Nat.add_zero] at h1
  have hq : 0 < short.length / m := by
    rcases Nat.eq_zero_or_pos (short.length / m) with h | h
    · rw [h, Nat.mul_zero] at h1; omega
    · exact h
  have hk : k0 m short = short.length / m - 1 := by
    unfold k0
    apply Nat.div_eq_of_lt_le
    · have : (short.length / m - 1) * m = m * (short.length / m) - m := by
        rw [Nat.sub_mul, Nat.one_mul, Nat.mul_comm]
      rw [this]; omega
    · have : (short.length / m - 1 + 1) * m = m * (short.length / m) := by
        rw [Nat.sub_add_cancel hq, Nat.mul_comm]
      rw [this]; omega
  constructor
  · omega
  · rw [hk, Nat.sub_add_cancel hq, Nat.mul_comm]; exact h1

/-- inside a window the forming window is the one after the complete ones: `k0` windows are complete -/
theorem k0_of_forming (m : Nat) (short : List Candle) (hm : 0 < m)
    (hb : short.length % m ≠ 0) : short.length / m = k0 m short := by
  have h1 := Nat.div_add_mod short.length m
  have h2 := Nat.mod_lt short.length hm
  unfold k0
  symm
  apply Nat.div_eq_of_lt_le
  · rw [Nat.mul_comm]; omega
  · rw [Nat.add_mul, Nat.one_mul, Nat.mul_comm]; omega

/-- the aggregate of a non-empty list exists and carries the first candle's timestamp -/
theorem aggregate_some (cs : List Candle) (hne : cs ≠ []) :
    ∃ a c0, aggregate cs = some a ∧ cs.head? = some c0 ∧ a.ts = c0.ts := by
  cases cs with
  | nil => exact absurd rfl hne
  | cons c0 rest => exact ⟨_, c0, rfl, rfl, rfl⟩

/-- every visible candle carries the timestamp of one of the 1m candles -/
theorem visible_ts_mem (m : Nat) (s : List Candle) (v : Candle) (hv : v ∈ visible m s) :
    ∃ c ∈ s, v.ts = c.ts := by
  by_cases hm : m = 0
  · subst hm; simp [visible, windows_zero] at hv
  have hm' : 0 < m := Nat.pos_of_ne_zero hm
  induction hn : s.length using Nat.strong_induction_on generalizing s with
  | _ n ih =>
    by_cases hs : s = []
    · subst hs; simp [visible, windows_nil] at hv
    · unfold visible at hv
      rw [windows_step m s hm' hs, List.filterMap_cons] at hv
      have hcase : v ∈ (match aggregate (s.take m) with | some a => [a] | none => []) ∨
          v ∈ (windows m (s.drop m)).filterMap aggregate := by
        cases h : aggregate (s.take m) with
        | none => rw [h] at hv; exact Or.inr hv
        | some a =>
          rw [h] at hv
          rcases List.mem_cons.mp hv with h1 | h1
          · left; rw [h1]; exact List.mem_singleton.mpr rfl
          · exact Or.inr h1
      rcases hcase with h1 | h1
      · have htne : s.take m ≠ [] := by
          intro h0
          have : (s.take m).length = 0 := by rw [h0]; rfl
          rw [List.length_take] at this
          have : 0 < s.length := List.length_pos_iff.mpr hs
          omega
        obtain ⟨a, c0, ha, hc0, hts⟩ := aggregate_some (s.take m) htne
        rw [ha] at h1
        have hva : v = a := List.mem_singleton.mp h1
        refine ⟨c0, ?_, by rw [hva]; exact hts⟩
        have : c0 ∈ s.take m := List.mem_of_mem_head? hc0
        exact List.mem_of_mem_take this
      · have hlen : (s.drop m).length < n := by
          rw [List.length_drop, ← hn]
          have : 0 < s.length := List.length_pos_iff.mpr hs
          omega
        obtain ⟨c, hc, hts⟩ := ih _ hlen (s.drop m) h1 rfl
        exact ⟨c, List.mem_of_mem_drop hc, hts⟩

/-- what a reader sees = the candles of the complete windows before the last window, then the aggregate of
    the last (complete or forming) window, which carries the timestamp of the window's first minute -/
theorem visible_last (m : Nat) (short : List Candle) (hm : 0 < m) (hne : short ≠ []) :
    ∃ a s0, aggregate (short.drop (k0 m short * m)) = some a ∧
      visible m short = visible m (short.take (k0 m short * m)) ++ [a] ∧
      short[k0 m short * m]? = some s0 ∧ a.ts = s0.ts := by
  have hlt := k0_mul_lt m short hm hne
  have hdne : short.drop (k0 m short * m) ≠ [] := by
    intro h0
    have : (short.drop (k0 m short * m)).length = 0 := by rw [h0]; rfl
    rw [List.length_drop] at this; omega
  obtain ⟨a, c0, ha, hc0, hts⟩ := aggregate_some _ hdne
  refine ⟨a, c0, ha, ?_, ?_, hts⟩
  · have hsplit : short = short.take (k0 m short * m) ++ short.drop (k0 m short * m) :=
      (List.take_append_drop _ _).symm
    have htl : (short.take (k0 m short * m)).length = k0 m short * m := by
      rw [List.length_take]; omega
    have hdl : (short.drop (k0 m short * m)).length ≤ m := by
      rw [List.length_drop]; exact window_len_le m short hm
    conv => lhs; rw [hsplit]
    unfold visible
    rw [windows_prefix_append m _ _ _ hm htl, List.filterMap_append, windows_short m _ hm hdne hdl]
    simp only [List.filterMap_cons, List.filterMap_nil, ha]
  · rw [List.head?_drop] at hc0; exact hc0

end StoreProto
