/-
  Proofs/Lemmas/Quiet.lean — helper lemmas for C12: spans of minutes in which no resting order of the
  symbol is reachable and no liquidation is possible.
-/
import Jesse.Engine
import Proofs.Lemmas.Match
import Proofs.C07

namespace QuietLemmas
open Jesse Jesse.Eng Jesse.Gen Jesse.Acc MatchLemmas

variable {M : Type} [Inhabited M] (u : UserStrategy M)

theorem getD_upd_proj {α β} [Inhabited α] (g : α → β) (f : α → α) (hf : ∀ x, g (f x) = g x) (l : List α) (i j : Nat) :
    g (Acc.getD (Acc.upd l i f) j) = g (Acc.getD l j) := by
  induction l generalizing i j with
  | nil => simp [Acc.upd]
  | cons x xs ih =>
    cases i with
    | zero =>
      cases j with
      | zero => simp [Acc.upd, Acc.getD, hf]
      | succ j => simp [Acc.upd, Acc.getD]
    | succ i =>
      cases j with
      | zero => simp [Acc.upd, Acc.getD]
      | succ j => simp only [Acc.upd, Acc.getD]; exact ih i j

/-- no forced liquidation can happen for the symbol: cross margin, spot, or a flat position -/
def NoLiq (e : Engine M) (sym : Nat) : Prop := (¬ e.cfg.isolated ∨ e.w.kind = .spot) ∨ (posOf e sym).qty = 0

theorem checkLiquidation_noop (e : Engine M) (sym : Nat) (c : Candle) (h : NoLiq e sym) : checkLiquidation u e sym c = e := by
  unfold checkLiquidation
  by_cases he : e.err.isSome
  · rw [if_pos he]
  · rw [if_neg he]
    by_cases h2 : ¬ e.cfg.isolated ∨ e.w.kind = .spot
    · rw [if_pos h2]
    · rw [if_neg h2]
      rcases h with h | h
      · exact absurd h h2
      · simp only [h, if_true]

theorem noLiq_setPrice (e : Engine M) (sym s2 : Nat) (p : Rat) (h : NoLiq e sym) : NoLiq (setCurrentPrice e s2 p) sym := by
  unfold NoLiq at *
  rcases h with h | h
  · left; exact h
  · right
    unfold posOf setCurrentPrice Acc.setPrice
    simp only []
    rw [getD_upd_proj (fun (q : Pos) => q.qty) _ (by intro x; rfl)]
    exact h

theorem executingOrders_congr (e e' : Engine M) (sym : Nat) (c : Candle) (h1 : e'.w.orders = e.w.orders) (h2 : e'.w.active = e.w.active) :
    executingOrders e' sym c = executingOrders e sym c := by
  unfold executingOrders orderOf
  rw [h1, h2]

/-- a minute in which no active order of the symbol is reachable and no liquidation is possible only
    stores the candle and moves the current price -/
theorem quiet_minute (fuel : Nat) (e : Engine M) (sym : Nat) (c : Candle) (herr : e.err = none)
    (hq : executingOrders e sym c = []) (hl : NoLiq e sym) :
    simulateMinute u (fuel + 1) e sym c = setCurrentPrice (addCandle e sym 1 c) sym c.c := by
  unfold simulateMinute
  simp only [herr, Option.isSome_none, Bool.false_eq_true, if_false, hq, List.length_nil]
  unfold matchLoop
  simp only [herr, Option.isSome_none, Bool.false_eq_true, if_false, Nat.not_lt_zero, matchLoop.firstHit]
  apply checkLiquidation_noop
  apply noLiq_setPrice
  exact hl


/-- a chunk in which no active order of the symbol is reachable (its aggregate candle contains no resting
    price) and no liquidation is possible only stores the candles, moves the clock and the current price -/
theorem quiet_chunk (fuel : Nat) (e : Engine M) (sym : Nat) (cs : List Candle) (real last : Candle) (short' : List Candle)
    (herr : e.err = none) (hgen : Store.generate 0 cs = .ok real) (hq : executingOrders e sym real = [])
    (hl : NoLiq e sym) (hadd : Store.addMultiple1m (storeOf e sym).short cs = .ok short') (hlast : cs.getLast? = some last) :
    simulateChunk u fuel e sym cs =
      setCurrentPrice { e with stores := upd e.stores sym (fun s => { s with short := short' }),
                               time := real.ts + 60000 * cs.length } sym last.c := by
  unfold simulateChunk
  simp only [herr, Option.isSome_none, Bool.false_eq_true, if_false, hgen, hq, List.length_nil, Nat.lt_irrefl, hadd, hlast]
  rw [checkLiquidation_noop]
  exact hl


theorem setPrice_setPrice (w : World) (sym : Nat) (a b : Rat) : Acc.setPrice (Acc.setPrice w sym a) sym b = Acc.setPrice w sym b := by
  unfold Acc.setPrice
  simp only []
  congr 1
  have : ∀ (l : List Pos) (i : Nat), Acc.upd (Acc.upd l i (fun q => { q with current := some a })) i (fun q => { q with current := some b })
      = Acc.upd l i (fun q => { q with current := some b }) := by
    intro l
    induction l with
    | nil => intro i; simp [Acc.upd]
    | cons x xs ih =>
      intro i
      cases i with
      | zero => simp [Acc.upd]
      | succ i => simp only [Acc.upd]; rw [ih i]
  exact this _ _

/-- the step simulator's treatment of one minute row `m` of symbol `sym` (store the 1m candle, match) -/
def stepMinute (fuel : Nat) (sym : Nat) (e : Engine M) (m : Candle) : Engine M :=
  simulateMinute u (fuel + 1) (addCandle e sym 1 m) sym m

theorem span_fields (fuel : Nat) (sym : Nat) (ms : List Candle) (e : Engine M) (herr : e.err = none)
    (hq : ∀ m ∈ ms, executingOrders e sym m = []) (hl : NoLiq e sym) :
    let r := ms.foldl (stepMinute u fuel sym) e
    r.log = e.log ∧ r.strat = e.strat ∧ r.toExecute = e.toExecute ∧ r.err = none ∧ r.via = e.via ∧ r.storage = e.storage
    ∧ r.liquidations = e.liquidations ∧ r.daily = e.daily ∧ r.cfg = e.cfg
    ∧ r.w = (match ms.getLast? with | some m => Acc.setPrice e.w sym m.c | none => e.w) := by
  induction ms generalizing e with
  | nil => simp [herr]
  | cons m rest ih =>
    intro r
    have hstep : stepMinute u fuel sym e m = setCurrentPrice (addCandle (addCandle e sym 1 m) sym 1 m) sym m.c := by
      unfold stepMinute
      exact quiet_minute u fuel (addCandle e sym 1 m) sym m herr (by
        rw [executingOrders_congr e (addCandle e sym 1 m) sym m rfl rfl]; exact hq m (by simp)) hl
    have e1err : (stepMinute u fuel sym e m).err = none := by rw [hstep]; exact herr
    have e1q : ∀ m' ∈ rest, executingOrders (stepMinute u fuel sym e m) sym m' = [] := by
      intro m' hm'
      rw [executingOrders_congr e (stepMinute u fuel sym e m) sym m' (by rw [hstep]; rfl) (by rw [hstep]; rfl)]
      exact hq m' (by simp [hm'])
    have e1l : NoLiq (stepMinute u fuel sym e m) sym := by
      rw [hstep]; exact noLiq_setPrice _ _ _ _ hl
    obtain ⟨i1, i2, i3, i4, i5, i6, i7, i8, i9, i10⟩ := ih (stepMinute u fuel sym e m) e1err e1q e1l
    have hr : r = rest.foldl (stepMinute u fuel sym) (stepMinute u fuel sym e m) := rfl
    rw [hr]
    refine ⟨by rw [i1, hstep]; rfl, by rw [i2, hstep]; rfl, by rw [i3, hstep]; rfl, i4, by rw [i5, hstep]; rfl,
      by rw [i6, hstep]; rfl, by rw [i7, hstep]; rfl, by rw [i8, hstep]; rfl, by rw [i9, hstep]; rfl, ?_⟩
    rw [i10]
    have hw : (stepMinute u fuel sym e m).w = Acc.setPrice e.w sym m.c := by rw [hstep]; rfl
    cases hrest : rest.getLast? with
    | none =>
      have : rest = [] := by simpa using hrest
      subst this
      simp [hw]
    | some m' =>
      have : (m :: rest).getLast? = some m' := by
        cases rest with
        | nil => simp at hrest
        | cons x xs => simpa [List.getLast?_cons_cons] using hrest
      simp only [this, hw, setPrice_setPrice]


/-- the rows the step simulator processes for a chunk whose first row is already jump-fixed: every later
    row is jump-fixed against its predecessor -/
def stepRows : List Candle → List Candle
  | [] => []
  | c :: rest => c :: List.zipWith fixJump (c :: rest) rest

theorem quiet_of_aggregate_quiet (e : Engine M) (sym : Nat) (real m : Candle) (hq : executingOrders e sym real = [])
    (hlo : real.l ≤ m.l) (hhi : m.h ≤ real.h) : executingOrders e sym m = [] := by
  apply List.eq_nil_iff_forall_not_mem.mpr
  intro id hid
  obtain ⟨h1, h2, h3⟩ := (mem_executingOrders e sym m id).mp hid
  have : id ∈ executingOrders e sym real := (mem_executingOrders e sym real id).mpr
    ⟨h1, h2, ⟨Rat.le_trans hlo h3.1, Rat.le_trans h3.2 hhi⟩⟩
  rw [hq] at this; cases this

/-- QUIET SPAN: if no active order of the symbol has its price inside the aggregate candle of a chunk and no
    liquidation is possible, the step simulator (minute by minute over rows within the aggregate's range that
    end on the same close) and the fast simulator (the chunk at once) leave the SAME trading state: accounts
    (incl. the current price), orders, strategy states, pending market orders, trace, error flag. -/
theorem quiet_span_agree (fuel : Nat) (e : Engine M) (sym : Nat) (cs ms : List Candle) (real last : Candle)
    (short' : List Candle) (herr : e.err = none) (hgen : Store.generate 0 cs = .ok real)
    (hq : executingOrders e sym real = []) (hl : NoLiq e sym)
    (hadd : Store.addMultiple1m (storeOf e sym).short cs = .ok short') (hlast : cs.getLast? = some last)
    (hin : ∀ m ∈ ms, real.l ≤ m.l ∧ m.h ≤ real.h) (hms : ms.getLast?.map (·.c) = some last.c) :
    let r := ms.foldl (stepMinute u fuel sym) e
    let f := simulateChunk u fuel e sym cs
    r.w = f.w ∧ r.log = f.log ∧ r.strat = f.strat ∧ r.toExecute = f.toExecute ∧ r.err = f.err ∧ r.via = f.via
    ∧ r.storage = f.storage ∧ r.liquidations = f.liquidations ∧ r.daily = f.daily := by
  intro r f
  have hf := quiet_chunk u fuel e sym cs real last short' herr hgen hq hl hadd hlast
  change f = _ at hf
  obtain ⟨i1, i2, i3, i4, i5, i6, i7, i8, _, i10⟩ := span_fields u fuel sym ms e herr
    (fun m hm => quiet_of_aggregate_quiet e sym real m hq (hin m hm).1 (hin m hm).2) hl
  rw [hf]
  refine ⟨?_, i1, i2, i3, by rw [i4]; exact herr.symm, i5, i6, i7, i8⟩
  show r.w = _
  rw [i10]
  cases hm : ms.getLast? with
  | none => simp [hm] at hms
  | some m =>
    simp only [hm, Option.map_some, Option.some.injEq] at hms
    simp only [hms]
    rfl


theorem mem_zipWith_fixJump (xs ys : List Candle) (m : Candle) (h : m ∈ List.zipWith fixJump xs ys) :
    ∃ p ∈ xs, ∃ c ∈ ys, m = fixJump p c := by
  induction xs generalizing ys with
  | nil => simp at h
  | cons x xs ih =>
    cases ys with
    | nil => simp at h
    | cons y ys =>
      simp only [List.zipWith_cons_cons, List.mem_cons] at h
      rcases h with h | h
      · exact ⟨x, by simp, y, by simp, h⟩
      · obtain ⟨p, hp, c, hc, hm⟩ := ih ys h
        exact ⟨p, by simp [hp], c, by simp [hc], hm⟩

theorem closes_zipWith (c : Candle) (rest : List Candle) :
    (List.zipWith fixJump (c :: rest) rest).map (·.c) = rest.map (·.c) := by
  induction rest generalizing c with
  | nil => simp
  | cons y ys ih =>
    simp only [List.zipWith_cons_cons, List.map_cons]
    rw [ih y]
    congr 1
    rcases C07.fix_jump_spec c y with h | h
    · exact h.2.1
    · rw [h.2]

theorem stepRows_closes (cs : List Candle) : (stepRows cs).map (·.c) = cs.map (·.c) := by
  cases cs with
  | nil => rfl
  | cons c rest => simp only [stepRows, List.map_cons, closes_zipWith]

/-- the rows the step simulator sees lie inside the aggregate range of the (valid) chunk and end on its close -/
theorem stepRows_within (cs : List Candle) (real : Candle) (hv : ∀ c ∈ cs, c.Valid) (hgen : Store.generate 0 cs = .ok real) :
    (∀ m ∈ stepRows cs, real.l ≤ m.l ∧ m.h ≤ real.h)
    ∧ (stepRows cs).getLast?.map (·.c) = cs.getLast?.map (·.c) := by
  have hagg : Spec.aggregate cs = some real := by
    have := C07.generate_is_aggregate 0 cs
    rw [hgen] at this
    cases h : Spec.aggregate cs with
    | none => rw [h] at this; cases this
    | some a => rw [h] at this; simp at this; rw [this]
  obtain ⟨hhi, _, hlo, _⟩ := C07.aggregate_extrema cs real hagg
  constructor
  · intro m hm
    cases cs with
    | nil => cases hm
    | cons c rest =>
      simp only [stepRows, List.mem_cons] at hm
      rcases hm with rfl | hm
      · exact ⟨hlo _ (by simp), hhi _ (by simp)⟩
      · obtain ⟨p, hp, y, hy, rfl⟩ := mem_zipWith_fixJump _ _ _ hm
        have hy' : y ∈ c :: rest := by simp [hy]
        obtain ⟨_, hl, hh⟩ := C07.fix_jump_bounds p y (hv y hy')
        obtain ⟨v1, v2, v3, v4⟩ := hv p hp
        rw [hl, hh]
        exact ⟨le_min (hlo y hy') (le_trans (hlo p hp) v3), max_le (hhi y hy') (le_trans v4 (hhi p hp))⟩
  · rw [← List.getLast?_map, ← List.getLast?_map, stepRows_closes]


end QuietLemmas
