/-
  Proofs/Lemmas/Sort.lean — helper lemmas about the engine's stable insertion sort (`insertBy`,
  `sortedBy`) used by `_sort_execution_orders`.
-/
import Jesse.Engine

namespace SortLemmas
open Jesse Jesse.Eng

theorem mem_insertBy (key : Nat → Rat) (d : Bool) (x z : Nat) (l : List Nat) :
    z ∈ insertBy key d x l ↔ z = x ∨ z ∈ l := by
  induction l with
  | nil => simp [insertBy]
  | cons y ys ih =>
    rw [insertBy]
    by_cases hc : (if d = true then key y < key x else key x < key y)
    · rw [if_pos hc]; simp
    · rw [if_neg hc]
      simp only [List.mem_cons, ih]
      constructor
      · rintro (h | h | h) <;> simp [h]
      · rintro (h | h | h) <;> simp [h]

theorem mem_foldl_insertBy (key : Nat → Rat) (d : Bool) (xs acc : List Nat) (z : Nat) :
    z ∈ xs.foldl (fun acc x => insertBy key d x acc) acc ↔ z ∈ xs ∨ z ∈ acc := by
  induction xs generalizing acc with
  | nil => simp
  | cons x xs ih =>
    simp only [List.foldl_cons, ih, mem_insertBy, List.mem_cons]
    constructor
    · rintro (h | h | h) <;> simp [h]
    · rintro ((h | h) | h) <;> simp [h]

theorem mem_sortedBy (key : Nat → Rat) (d : Bool) (xs : List Nat) (z : Nat) :
    z ∈ sortedBy key d xs ↔ z ∈ xs := by
  unfold sortedBy
  rw [mem_foldl_insertBy]; simp

/-- ascending order as produced by `insertBy … false` -/
def Asc (key : Nat → Rat) (l : List Nat) : Prop := l.Pairwise (fun a b => key a ≤ key b)
/-- descending order as produced by `insertBy … true` -/
def Desc (key : Nat → Rat) (l : List Nat) : Prop := l.Pairwise (fun a b => key b ≤ key a)

theorem asc_insertBy (key : Nat → Rat) (x : Nat) (l : List Nat) (h : Asc key l) : Asc key (insertBy key false x l) := by
  induction l with
  | nil => simp [insertBy, Asc]
  | cons y ys ih =>
    unfold Asc at h ⊢
    rw [List.pairwise_cons] at h
    unfold insertBy
    simp only [Bool.false_eq_true, if_false]
    split
    · rename_i hlt
      rw [List.pairwise_cons]
      refine ⟨?_, List.pairwise_cons.mpr h⟩
      intro z hz
      rcases List.mem_cons.mp hz with rfl | hz
      · exact Rat.le_of_lt hlt
      · exact Rat.le_trans (Rat.le_of_lt hlt) (h.1 z hz)
    · rename_i hnlt
      rw [List.pairwise_cons]
      refine ⟨?_, ih h.2⟩
      intro z hz
      rcases (mem_insertBy key false x z ys).mp hz with rfl | hz
      · exact Rat.not_lt.mp hnlt
      · exact h.1 z hz

theorem desc_insertBy (key : Nat → Rat) (x : Nat) (l : List Nat) (h : Desc key l) : Desc key (insertBy key true x l) := by
  induction l with
  | nil => simp [insertBy, Desc]
  | cons y ys ih =>
    unfold Desc at h ⊢
    rw [List.pairwise_cons] at h
    unfold insertBy
    simp only [if_true]
    split
    · rename_i hlt
      rw [List.pairwise_cons]
      refine ⟨?_, List.pairwise_cons.mpr h⟩
      intro z hz
      rcases List.mem_cons.mp hz with rfl | hz
      · exact Rat.le_of_lt hlt
      · exact Rat.le_trans (h.1 z hz) (Rat.le_of_lt hlt)
    · rename_i hnlt
      rw [List.pairwise_cons]
      refine ⟨?_, ih h.2⟩
      intro z hz
      rcases (mem_insertBy key true x z ys).mp hz with rfl | hz
      · exact Rat.not_lt.mp hnlt
      · exact h.1 z hz

theorem asc_foldl (key : Nat → Rat) (xs acc : List Nat) (h : Asc key acc) :
    Asc key (xs.foldl (fun acc x => insertBy key false x acc) acc) := by
  induction xs generalizing acc with
  | nil => simpa
  | cons x xs ih => exact ih _ (asc_insertBy key x acc h)

theorem desc_foldl (key : Nat → Rat) (xs acc : List Nat) (h : Desc key acc) :
    Desc key (xs.foldl (fun acc x => insertBy key true x acc) acc) := by
  induction xs generalizing acc with
  | nil => simpa
  | cons x xs ih => exact ih _ (desc_insertBy key x acc h)

theorem asc_sortedBy (key : Nat → Rat) (xs : List Nat) : Asc key (sortedBy key false xs) :=
  asc_foldl key xs [] (by simp [Asc])

theorem desc_sortedBy (key : Nat → Rat) (xs : List Nat) : Desc key (sortedBy key true xs) :=
  desc_foldl key xs [] (by simp [Desc])

/-- the head of an ascending list is a minimum -/
theorem head_le_of_asc (key : Nat → Rat) (x : Nat) (l : List Nat) (h : Asc key (x :: l)) (z : Nat) (hz : z ∈ x :: l) :
    key x ≤ key z := by
  unfold Asc at h
  rw [List.pairwise_cons] at h
  rcases List.mem_cons.mp hz with rfl | hz
  · exact Rat.le_refl
  · exact h.1 z hz

theorem le_head_of_desc (key : Nat → Rat) (x : Nat) (l : List Nat) (h : Desc key (x :: l)) (z : Nat) (hz : z ∈ x :: l) :
    key z ≤ key x := by
  unfold Desc at h
  rw [List.pairwise_cons] at h
  rcases List.mem_cons.mp hz with rfl | hz
  · exact Rat.le_refl
  · exact h.1 z hz

end SortLemmas
