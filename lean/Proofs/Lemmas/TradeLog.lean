/-
  Proofs/Lemmas/TradeLog.lean — helper lemmas for C06: what one executed order does to wallet,
  position, the trade under construction and the closed-trade list of a one-symbol futures world.
-/
import Jesse.TradeLog
import Proofs.Lemmas.Num

namespace TradeLogLemmas
open Jesse Jesse.Acc Jesse.Gen

/-- the state `Order.execute` hands to `Position._on_executed_order` -/
def preFill (w : World) (id : Nat) (o : Order) : World :=
  exchangeOnExecution (addExecutedOrder (setStatus w id .executed) o) o

theorem execute_eq (w : World) (id : Nat) (o : Order) (ho : w.orders[id]? = some o) (ha : o.status = .active) :
    execute w id = onExecuted (preFill w id o) o := by
  unfold execute preFill
  simp [ho, ha]

theorem preFill_fields (w : World) (hk : w.kind = .futures) (id : Nat) (o : Order) :
    (preFill w id o).wallet = w.wallet ∧ (preFill w id o).pos = w.pos ∧ (preFill w id o).trades = w.trades
    ∧ (preFill w id o).fee = w.fee ∧ (preFill w id o).kind = .futures
    ∧ (preFill w id o).temp = (addExecutedOrder w o).temp := by
  unfold preFill exchangeOnExecution addExecutedOrder setStatus
  simp only [hk]
  by_cases h1 : o.reduceOnly = true
  · simp [h1]
  · by_cases h2 : o.side = .buy
    · simp [h1, h2]
    · simp [h1, h2]

theorem qtySum_append (a : List (Rat × Rat)) (x : Rat × Rat) : qtySum (a ++ [x]) = qtySum a + x.1 := by
  simp [qtySum, List.sum_append]

theorem notional_append (a : List (Rat × Rat)) (x : Rat × Rat) : notional (a ++ [x]) = notional a + x.1 * x.2 := by
  simp [notional, List.sum_append]

theorem qtySum_nonneg (a : List (Rat × Rat)) (h : ∀ r ∈ a, 0 < r.1) : 0 ≤ qtySum a := by
  induction a with
  | nil => simp [qtySum]
  | cons x xs ih =>
    have h1 := h x (by simp)
    have h2 := ih (fun r hr => h r (by simp [hr]))
    simp only [qtySum, List.map_cons, List.sum_cons] at *
    linarith

end TradeLogLemmas

namespace TradeLogLemmas
open Jesse Jesse.Acc Jesse.Gen

/-- the open-cycle term of the ledger identity: what the fills of the running cycle have done to the
    wallet, given the rows recorded so far and the position they left -/
def openTerm (fee : Rat) (p : Pos) (t : Trade) : Rat :=
  -(fee * (notional t.buys + notional t.sells)) + notional t.sells - notional t.buys + p.qty * p.entry.getD 0

def closedPnl (w : World) : Rat := (w.trades.map (Trade.pnl w.fee)).sum

/-- wallet minus the net PnL of all closed trades minus the open-cycle term -/
def ledger (w : World) : Rat := w.wallet - closedPnl w - openTerm w.fee (getD w.pos 0) (getD w.temp 0)

/-- well-formedness of a one-symbol futures world between fills -/
structure Inv (w : World) (p : Pos) (t : Trade) : Prop where
  kind : w.kind = .futures
  pos1 : w.pos = [p]
  temp1 : w.temp = [t]
  qty_eq : p.qty = qtySum t.buys - qtySum t.sells
  flat : p.qty = 0 → p.entry = none ∧ t = {}
  running : p.qty ≠ 0 → (∃ e, p.entry = some e) ∧ t.isOpen = true ∧ t.type = some p.type
  buysPos : ∀ r ∈ t.buys, 0 < r.1
  sellsPos : ∀ r ∈ t.sells, 0 < r.1

/-- the fills the property's cycles are made of: a non-zero quantity whose sign matches the side; a
    reduce-only order only against an open position and never in the position's own direction; no
    order larger than the position it reduces (oversize reduce-only orders and flips are the known
    findings C06-F1 / C06-F2) -/
structure Legal (p : Pos) (o : Order) : Prop where
  sym : o.sym = 0
  nz : o.qty ≠ 0
  pricePos : 0 < o.price
  side : (o.side = .buy ↔ 0 < o.qty)
  roOpen : o.reduceOnly = true → p.qty ≠ 0
  roDir : p.qty * o.qty > 0 → o.reduceOnly = false
  noOversize : p.qty * o.qty < 0 → absR o.qty ≤ absR p.qty

theorem absR_pos_of_ne (x : Rat) (h : x ≠ 0) : 0 < absR x := by
  rw [absR_eq_abs]; exact abs_pos.mpr h

theorem absR_absR (x : Rat) : absR (absR x) = absR x := by rw [absR_eq_abs, absR_eq_abs, abs_abs]
theorem absR_of_pos (x : Rat) (h : 0 < x) : absR x = x := by rw [absR_eq_abs]; exact abs_of_pos h
theorem absR_of_neg (x : Rat) (h : x < 0) : absR x = -x := by rw [absR_eq_abs]; exact abs_of_neg h

end TradeLogLemmas

namespace TradeLogLemmas
open Jesse Jesse.Acc Jesse.Gen

/-- the running trade after the executed order is appended (`add_executed_order`) -/
def recorded (t : Trade) (o : Order) : Trade :=
  if o.side = .buy then { t with orders := t.orders ++ [o.id], buys := t.buys ++ [(absR o.qty, o.price)] }
  else { t with orders := t.orders ++ [o.id], sells := t.sells ++ [(absR o.qty, o.price)] }

theorem chargeFee_fut (x : World) (o : Order) (hx : x.kind = .futures) :
    chargeFee x o = { x with wallet := x.wallet - absR (o.qty * o.price) * x.fee } := by
  unfold chargeFee; rw [hx]

/-- the world handed to `onExecutedCore`: fee charged, the order recorded in the running trade -/
theorem charged_fields (w : World) (p : Pos) (t : Trade) (hI : Inv w p t) (id : Nat) (o : Order) (hs : o.sym = 0) :
    (chargeFee (preFill w id o) o).wallet = w.wallet - absR (o.qty * o.price) * w.fee
    ∧ (chargeFee (preFill w id o) o).pos = [p] ∧ (chargeFee (preFill w id o) o).trades = w.trades
    ∧ (chargeFee (preFill w id o) o).fee = w.fee
    ∧ (chargeFee (preFill w id o) o).kind = .futures
    ∧ (chargeFee (preFill w id o) o).temp = [recorded t o] := by
  obtain ⟨f1, f2, f3, f4, f5, f6⟩ := preFill_fields w hI.kind id o
  rw [chargeFee_fut _ _ f5]
  refine ⟨by simp [f1, f4], by simp [f2, hI.pos1], by simp [f3], by simp [f4], by simp [f5], ?_⟩
  simp only [f6, addExecutedOrder, hI.temp1, hs, upd, recorded]

theorem step_open (w' : World) (p : Pos) (t1 : Trade) (o : Order) (hk : w'.kind = .futures) (hp : w'.pos = [p])
    (ht : w'.temp = [t1]) (hs : o.sym = 0) (h0 : p.qty = 0) :
    (onExecutedCore w' o).wallet = w'.wallet
    ∧ (onExecutedCore w' o).pos = [{ p with entry := some o.price, prevQty := p.qty, qty := o.qty }]
    ∧ (onExecutedCore w' o).temp = [{ t1 with type := some (if o.qty > 0 then .long else if o.qty < 0 then .short else .close), isOpen := true }]
    ∧ (onExecutedCore w' o).trades = w'.trades ∧ (onExecutedCore w' o).fee = w'.fee ∧ (onExecutedCore w' o).kind = .futures := by
  have hg : getD w'.pos 0 = p := by rw [hp]; rfl
  simp only [onExecutedCore, hs, hg, h0, if_true, mutOpen, updateQty, openTrade, hk, hp, ht, upd, getD, Pos.type]
  simp

theorem step_close (w' : World) (p : Pos) (t1 : Trade) (o : Order) (e : Rat) (hk : w'.kind = .futures) (hp : w'.pos = [p])
    (ht : w'.temp = [t1]) (hs : o.sym = 0) (h0 : p.qty ≠ 0) (hc : p.qty + o.qty = 0) (he : p.entry = some e)
    (hopen : t1.isOpen = true) :
    (onExecutedCore w' o).wallet = w'.wallet + estimatePNL (absR p.qty) e o.price p.type 0
    ∧ (onExecutedCore w' o).pos = [{ p with entry := none, prevQty := p.qty, qty := 0 }]
    ∧ (onExecutedCore w' o).temp = [{}]
    ∧ (onExecutedCore w' o).trades = w'.trades ++ [t1] ∧ (onExecutedCore w' o).fee = w'.fee
    ∧ (onExecutedCore w' o).kind = .futures := by
  have hg : getD w'.pos 0 = p := by rw [hp]; rfl
  simp only [onExecutedCore, hs, hg, h0, hc, if_true, if_false, mutClose, he, hk, addRealized, updateQty, closeTrade, hp, ht,
    upd, getD, hopen]
  simp

theorem step_increase (w' : World) (p : Pos) (t1 : Trade) (o : Order) (e : Rat) (hk : w'.kind = .futures) (hp : w'.pos = [p])
    (ht : w'.temp = [t1]) (hs : o.sym = 0) (h0 : p.qty ≠ 0) (hc : p.qty + o.qty ≠ 0) (he : p.entry = some e)
    (hdir : p.qty * o.qty > 0) (hro : o.reduceOnly = false) :
    (onExecutedCore w' o).wallet = w'.wallet
    ∧ (onExecutedCore w' o).pos = [{ p with entry := some (estimateAveragePrice (absR o.qty) o.price p.qty e),
                                            prevQty := p.qty, qty := p.qty + o.qty }]
    ∧ (onExecutedCore w' o).temp = [t1]
    ∧ (onExecutedCore w' o).trades = w'.trades ∧ (onExecutedCore w' o).fee = w'.fee
    ∧ (onExecutedCore w' o).kind = .futures := by
  have hg : getD w'.pos 0 = p := by rw [hp]; rfl
  have hsign : (0 < p.qty ∧ 0 < o.qty) ∨ (p.qty < 0 ∧ o.qty < 0) := by
    rcases lt_trichotomy p.qty 0 with h | h | h
    · right; exact ⟨h, by nlinarith⟩
    · exact absurd h h0
    · left; exact ⟨h, by nlinarith⟩
  simp only [onExecutedCore, hs, hg, h0, hc, hdir, hro, if_true, if_false, mutIncrease, he, hk, updateQty, hp, ht, upd, getD,
    Pos.type, Bool.false_eq_true]
  rcases hsign with ⟨h1, h2⟩ | ⟨h1, h2⟩
  · have : ¬ p.qty < 0 := by linarith
    simp [h1, absR_of_pos _ h2, absR_absR]
  · have : ¬ 0 < p.qty := by linarith
    simp [h1, this, absR_of_neg _ h2, absR_absR]

theorem step_reduce (w' : World) (p : Pos) (t1 : Trade) (o : Order) (e : Rat) (hk : w'.kind = .futures) (hp : w'.pos = [p])
    (ht : w'.temp = [t1]) (hs : o.sym = 0) (h0 : p.qty ≠ 0) (hc : p.qty + o.qty ≠ 0) (he : p.entry = some e)
    (hdir : p.qty * o.qty < 0) (hsz : absR o.qty ≤ absR p.qty) :
    (onExecutedCore w' o).wallet = w'.wallet + estimatePNL (absR o.qty) e o.price p.type 0
    ∧ (onExecutedCore w' o).pos = [{ p with prevQty := p.qty, qty := p.qty + o.qty }]
    ∧ (onExecutedCore w' o).temp = [t1]
    ∧ (onExecutedCore w' o).trades = w'.trades ∧ (onExecutedCore w' o).fee = w'.fee
    ∧ (onExecutedCore w' o).kind = .futures := by
  have hg : getD w'.pos 0 = p := by rw [hp]; rfl
  have hsign : (0 < p.qty ∧ o.qty < 0) ∨ (p.qty < 0 ∧ 0 < o.qty) := by
    rcases lt_trichotomy p.qty 0 with h | h | h
    · right; exact ⟨h, by nlinarith⟩
    · exact absurd h h0
    · left; exact ⟨h, by nlinarith⟩
  have hnd : ¬ p.qty * o.qty > 0 := by linarith
  have hno : ¬ absR o.qty > absR p.qty := by linarith
  simp only [onExecutedCore, hs, hg, h0, hc, hdir, hnd, hno, if_true, if_false, mutReduce, he, hk, addRealized, updateQty, hp, ht,
    upd, getD, Pos.type]
  rcases hsign with ⟨h1, h2⟩ | ⟨h1, h2⟩
  · have : ¬ p.qty < 0 := by linarith
    simp [h1, absR_of_neg _ h2, absR_absR]
  · have : ¬ 0 < p.qty := by linarith
    simp [h1, this, absR_of_pos _ h2, absR_absR]

theorem closed_pnl_main (fee : Rat) (t : Trade) (ty : PosType) (hty : t.type = some ty) (hne : ty ≠ .close)
    (hq : qtySum t.buys = qtySum t.sells) (hpos : 0 < qtySum t.buys) :
    Trade.pnl fee t = notional t.sells - notional t.buys - fee * (notional t.buys + notional t.sells) := by
  have hb : qtySum t.buys ≠ 0 := ne_of_gt hpos
  have hs : qtySum t.sells ≠ 0 := by rw [← hq]; exact hb
  cases ty with
  | close => exact absurd rfl hne
  | long =>
    simp only [Trade.pnl, Trade.entryPrice, Trade.exitPrice, Trade.qty, hty, estimatePNL]
    rw [absR_of_pos _ hpos, ← hq]
    simp
    field_simp
  | short =>
    simp only [Trade.pnl, Trade.entryPrice, Trade.exitPrice, Trade.qty, hty, estimatePNL]
    rw [← hq, absR_of_pos _ hpos]
    simp
    field_simp
    ring

theorem recorded_buy (t : Trade) (o : Order) (hside : o.side = .buy ↔ 0 < o.qty) (hq : 0 < o.qty) :
    (recorded t o).buys = t.buys ++ [(o.qty, o.price)] ∧ (recorded t o).sells = t.sells
    ∧ (recorded t o).orders = t.orders ++ [o.id] ∧ (recorded t o).type = t.type ∧ (recorded t o).isOpen = t.isOpen := by
  have hb : o.side = .buy := hside.mpr hq
  simp [recorded, hb, absR_of_pos _ hq]

theorem recorded_sell (t : Trade) (o : Order) (hside : o.side = .buy ↔ 0 < o.qty) (hq : o.qty < 0) :
    (recorded t o).buys = t.buys ∧ (recorded t o).sells = t.sells ++ [(-o.qty, o.price)]
    ∧ (recorded t o).orders = t.orders ++ [o.id] ∧ (recorded t o).type = t.type ∧ (recorded t o).isOpen = t.isOpen := by
  have hb : ¬ o.side = .buy := fun h => by have := hside.mp h; linarith
  simp [recorded, hb, absR_of_neg _ hq]

theorem absR_mul_pos (q pr : Rat) (hp : 0 < pr) : absR (q * pr) = absR q * pr := by
  rw [absR_eq_abs, absR_eq_abs, abs_mul, abs_of_pos hp]

theorem ledger_of (w : World) (p : Pos) (t : Trade) (hp : w.pos = [p]) (ht : w.temp = [t]) :
    ledger w = w.wallet - closedPnl w - openTerm w.fee p t := by
  unfold ledger; rw [hp, ht]; rfl

theorem closedPnl_of (w w0 : World) (ht : w.trades = w0.trades) (hf : w.fee = w0.fee) : closedPnl w = closedPnl w0 := by
  unfold closedPnl; rw [ht, hf]

theorem closedPnl_append (w w0 : World) (t1 : Trade) (ht : w.trades = w0.trades ++ [t1]) (hf : w.fee = w0.fee) :
    closedPnl w = closedPnl w0 + Trade.pnl w0.fee t1 := by
  unfold closedPnl; rw [ht, hf]; simp [List.sum_append]

theorem posType_ne_close (p : Pos) (h : p.qty ≠ 0) : p.type ≠ .close := by
  unfold Pos.type
  rcases lt_or_gt_of_ne h with h | h
  · have : ¬ p.qty > 0 := by linarith
    simp [this, h]
  · simp [h]

theorem fill_step_main (w : World) (p : Pos) (t : Trade) (id : Nat) (o : Order) (hI : Inv w p t) (hL : Legal p o)
    (ho : w.orders[id]? = some o) (ha : o.status = .active) :
    ∃ p' t', Inv (execute w id) p' t'
      ∧ ledger (execute w id) = ledger w
      ∧ p'.qty = p.qty + o.qty
      ∧ (execute w id).trades = (if p.qty + o.qty = 0 then w.trades ++ [recorded t o] else w.trades)
      ∧ (p.qty + o.qty ≠ 0 → t'.orders = t.orders ++ [o.id] ∧ t'.buys = (recorded t o).buys ∧ t'.sells = (recorded t o).sells) := by
  rw [execute_eq w id o ho ha]
  unfold onExecuted
  obtain ⟨c1, c2, c3, c4, c5, c6⟩ := charged_fields w p t hI id o hL.sym
  have hpr := hL.pricePos
  have hfee : absR (o.qty * o.price) = absR o.qty * o.price := absR_mul_pos _ _ hpr
  have hlw := ledger_of w p t hI.pos1 hI.temp1
  have hbp := hI.buysPos
  have hsp := hI.sellsPos
  have hQB := qtySum_nonneg t.buys hbp
  have hQS := qtySum_nonneg t.sells hsp
  by_cases h0 : p.qty = 0
  · -- OPEN
    obtain ⟨s1, s2, s3, s4, s5, s6⟩ := step_open _ p (recorded t o) o c5 c2 c6 hL.sym h0
    obtain ⟨hent, htemp⟩ := hI.flat h0
    subst htemp
    rcases lt_or_gt_of_ne hL.nz with hq | hq
    · -- sell opens a short
      obtain ⟨r1, r2, r3, r4, r5⟩ := recorded_sell {} o hL.side hq
      have hnp : ¬ o.qty > 0 := by linarith
      refine ⟨_, _, ⟨s6, s2, s3, ?_, ?_, ?_, ?_, ?_⟩, ?_, ?_, ?_, ?_⟩
      · simp [r1, r2, qtySum]
      · intro h; exact absurd h (ne_of_lt hq)
      · intro _; exact ⟨⟨_, rfl⟩, rfl, by simp [Pos.type, hnp, hq]⟩
      · intro r hr; simp [r1] at hr
      · intro r hr; simp [r2] at hr; rw [hr]; simpa using hq
      · rw [ledger_of _ _ _ s2 s3, hlw, closedPnl_of _ w (by rw [s4, c3]) (by rw [s5, c4]), s1, c1, s5, c4, hfee,
          absR_of_neg _ hq]
        simp only [openTerm, r1, r2, notional, qtySum, hent, h0]
        simp
        ring
      · simp [h0]
      · have : p.qty + o.qty ≠ 0 := by rw [h0]; simpa using hL.nz
        rw [s4, c3]; simp [this]
      · intro _; exact ⟨r3, rfl, rfl⟩
    · -- buy opens a long
      obtain ⟨r1, r2, r3, r4, r5⟩ := recorded_buy {} o hL.side hq
      refine ⟨_, _, ⟨s6, s2, s3, ?_, ?_, ?_, ?_, ?_⟩, ?_, ?_, ?_, ?_⟩
      · simp [r1, r2, qtySum]
      · intro h; exact absurd h (ne_of_gt hq)
      · intro _; exact ⟨⟨_, rfl⟩, rfl, by simp [Pos.type, hq]⟩
      · intro r hr; simp [r1] at hr; rw [hr]; simpa using hq
      · intro r hr; simp [r2] at hr
      · rw [ledger_of _ _ _ s2 s3, hlw, closedPnl_of _ w (by rw [s4, c3]) (by rw [s5, c4]), s1, c1, s5, c4, hfee,
          absR_of_pos _ hq]
        simp only [openTerm, r1, r2, notional, qtySum, hent, h0]
        simp
        ring
      · simp [h0]
      · have : p.qty + o.qty ≠ 0 := by rw [h0]; simpa using hL.nz
        rw [s4, c3]; simp [this]
      · intro _; exact ⟨r3, rfl, rfl⟩
  · obtain ⟨⟨e, he⟩, hopen, htype⟩ := hI.running h0
    have hqeq := hI.qty_eq
    by_cases hc : p.qty + o.qty = 0
    · -- CLOSE
      rcases lt_or_gt_of_ne h0 with hp | hp
      · -- short closed by a buy
        have hq : 0 < o.qty := by linarith
        obtain ⟨r1, r2, r3, r4, r5⟩ := recorded_buy t o hL.side hq
        obtain ⟨s1, s2, s3, s4, s5, s6⟩ := step_close _ p (recorded t o) o e c5 c2 c6 hL.sym h0 hc he (by rw [r5]; exact hopen)
        have hty : p.type = .short := by simp [Pos.type, hp, not_lt.mpr (le_of_lt hp)]
        have hpnl := closed_pnl_main w.fee (recorded t o) .short (by rw [r4, htype, hty]) (by simp)
          (by rw [r1, r2, qtySum_append]; simp; linarith) (by rw [r1, qtySum_append]; simp; linarith)
        refine ⟨_, _, ⟨s6, s2, s3, ?_, ?_, ?_, ?_, ?_⟩, ?_, ?_, ?_, ?_⟩
        · simp [qtySum]
        · intro _; exact ⟨rfl, rfl⟩
        · intro h; exact absurd rfl h
        · intro r hr; simp at hr
        · intro r hr; simp at hr
        · rw [ledger_of _ _ _ s2 s3, hlw, closedPnl_append _ w (recorded t o) (by rw [s4, c3]) (by rw [s5, c4]), hpnl, s1, c1,
            s5, c4, hfee, absR_of_pos _ hq, absR_of_neg _ hp, hty]
          simp only [openTerm, r1, r2, notional_append, estimatePNL, he]
          simp [notional]
          have : o.qty = -p.qty := by linarith
          have h2 : absR (-p.qty) = -p.qty := absR_of_pos _ (by linarith)
          rw [this, h2]; ring
        · simp [hc]
        · rw [s4, c3]; simp [hc]
        · intro h; exact absurd hc h
      · -- long closed by a sell
        have hq : o.qty < 0 := by linarith
        obtain ⟨r1, r2, r3, r4, r5⟩ := recorded_sell t o hL.side hq
        obtain ⟨s1, s2, s3, s4, s5, s6⟩ := step_close _ p (recorded t o) o e c5 c2 c6 hL.sym h0 hc he (by rw [r5]; exact hopen)
        have hty : p.type = .long := by simp [Pos.type, hp]
        have hpnl := closed_pnl_main w.fee (recorded t o) .long (by rw [r4, htype, hty]) (by simp)
          (by rw [r1, r2, qtySum_append]; simp; linarith) (by rw [r1]; linarith)
        refine ⟨_, _, ⟨s6, s2, s3, ?_, ?_, ?_, ?_, ?_⟩, ?_, ?_, ?_, ?_⟩
        · simp [qtySum]
        · intro _; exact ⟨rfl, rfl⟩
        · intro h; exact absurd rfl h
        · intro r hr; simp at hr
        · intro r hr; simp at hr
        · rw [ledger_of _ _ _ s2 s3, hlw, closedPnl_append _ w (recorded t o) (by rw [s4, c3]) (by rw [s5, c4]), hpnl, s1, c1,
            s5, c4, hfee, absR_of_neg _ hq, absR_of_pos _ hp, hty]
          simp only [openTerm, r1, r2, notional_append, estimatePNL, he]
          simp [notional]
          have : o.qty = -p.qty := by linarith
          rw [this, absR_of_pos _ hp]; ring
        · simp [hc]
        · rw [s4, c3]; simp [hc]
        · intro h; exact absurd hc h
    · have hprod : p.qty * o.qty ≠ 0 := mul_ne_zero h0 hL.nz
      rcases lt_or_gt_of_ne hprod with hdir | hdir
      · -- REDUCE
        have hsz := hL.noOversize hdir
        rcases lt_or_gt_of_ne h0 with hp | hp
        · -- short reduced by a buy
          have hq : 0 < o.qty := by nlinarith
          obtain ⟨r1, r2, r3, r4, r5⟩ := recorded_buy t o hL.side hq
          obtain ⟨s1, s2, s3, s4, s5, s6⟩ := step_reduce _ p (recorded t o) o e c5 c2 c6 hL.sym h0 hc he hdir hsz
          rw [absR_of_pos _ hq, absR_of_neg _ hp] at hsz
          have hnew : p.qty + o.qty < 0 := lt_of_le_of_ne (by linarith) hc
          have hty : p.type = .short := by simp [Pos.type, hp, not_lt.mpr (le_of_lt hp)]
          refine ⟨_, _, ⟨s6, s2, s3, ?_, ?_, ?_, ?_, ?_⟩, ?_, ?_, ?_, ?_⟩
          · simp [r1, r2, qtySum_append]; linarith
          · intro h; exact absurd h hc
          · intro _; refine ⟨⟨e, he⟩, by rw [r5]; exact hopen, ?_⟩
            rw [r4, htype, hty]; simp [Pos.type, hnew, not_lt.mpr (le_of_lt hnew)]
          · intro r hr; rw [r1] at hr; simp at hr; rcases hr with hr | hr
            · exact hbp r hr
            · rw [hr]; simpa using hq
          · intro r hr; rw [r2] at hr; exact hsp r hr
          · rw [ledger_of _ _ _ s2 s3, hlw, closedPnl_of _ w (by rw [s4, c3]) (by rw [s5, c4]), s1, c1, s5, c4, hfee,
              absR_of_pos _ hq, hty]
            simp only [openTerm, r1, r2, notional_append, estimatePNL, he]
            simp [absR_of_pos _ hq]
            ring
          · rfl
          · rw [s4, c3]; simp [hc]
          · intro _; exact ⟨r3, rfl, rfl⟩
        · -- long reduced by a sell
          have hq : o.qty < 0 := by nlinarith
          obtain ⟨r1, r2, r3, r4, r5⟩ := recorded_sell t o hL.side hq
          obtain ⟨s1, s2, s3, s4, s5, s6⟩ := step_reduce _ p (recorded t o) o e c5 c2 c6 hL.sym h0 hc he hdir hsz
          rw [absR_of_neg _ hq, absR_of_pos _ hp] at hsz
          have hnew : 0 < p.qty + o.qty := lt_of_le_of_ne (by linarith) (Ne.symm hc)
          have hty : p.type = .long := by simp [Pos.type, hp]
          refine ⟨_, _, ⟨s6, s2, s3, ?_, ?_, ?_, ?_, ?_⟩, ?_, ?_, ?_, ?_⟩
          · simp [r1, r2, qtySum_append]; linarith
          · intro h; exact absurd h hc
          · intro _; refine ⟨⟨e, he⟩, by rw [r5]; exact hopen, ?_⟩
            rw [r4, htype, hty]; simp [Pos.type, hnew]
          · intro r hr; rw [r1] at hr; exact hbp r hr
          · intro r hr; rw [r2] at hr; simp at hr; rcases hr with hr | hr
            · exact hsp r hr
            · rw [hr]; simpa using hq
          · rw [ledger_of _ _ _ s2 s3, hlw, closedPnl_of _ w (by rw [s4, c3]) (by rw [s5, c4]), s1, c1, s5, c4, hfee,
              absR_of_neg _ hq, hty]
            simp only [openTerm, r1, r2, notional_append, estimatePNL, he]
            simp [absR_of_pos (-o.qty) (by linarith)]
            ring
          · rfl
          · rw [s4, c3]; simp [hc]
          · intro _; exact ⟨r3, rfl, rfl⟩
      · -- INCREASE
        have hro := hL.roDir hdir
        rcases lt_or_gt_of_ne h0 with hp | hp
        · -- short increased by a sell
          have hq : o.qty < 0 := by nlinarith
          obtain ⟨r1, r2, r3, r4, r5⟩ := recorded_sell t o hL.side hq
          obtain ⟨s1, s2, s3, s4, s5, s6⟩ := step_increase _ p (recorded t o) o e c5 c2 c6 hL.sym h0 hc he hdir hro
          have hnew : p.qty + o.qty < 0 := by linarith
          have hty : p.type = .short := by simp [Pos.type, hp, not_lt.mpr (le_of_lt hp)]
          refine ⟨_, _, ⟨s6, s2, s3, ?_, ?_, ?_, ?_, ?_⟩, ?_, ?_, ?_, ?_⟩
          · simp [r1, r2, qtySum_append]; linarith
          · intro h; exact absurd h hc
          · intro _; refine ⟨⟨_, rfl⟩, by rw [r5]; exact hopen, ?_⟩
            rw [r4, htype, hty]; simp [Pos.type, hnew, not_lt.mpr (le_of_lt hnew)]
          · intro r hr; rw [r1] at hr; exact hbp r hr
          · intro r hr; rw [r2] at hr; simp at hr; rcases hr with hr | hr
            · exact hsp r hr
            · rw [hr]; simpa using hq
          · rw [ledger_of _ _ _ s2 s3, hlw, closedPnl_of _ w (by rw [s4, c3]) (by rw [s5, c4]), s1, c1, s5, c4, hfee,
              absR_of_neg _ hq]
            simp only [openTerm, r1, r2, notional_append, estimateAveragePrice, he, absR_absR]
            have ha2 : absR (-o.qty) = -o.qty := absR_of_pos _ (by linarith)
            simp [absR_of_neg _ hq, absR_of_neg _ hp, ha2]
            have hden : -p.qty + -o.qty ≠ 0 := by linarith
            have hden2 : -o.qty + -p.qty ≠ 0 := by linarith
            field_simp
            ring
          · rfl
          · rw [s4, c3]; simp [hc]
          · intro _; exact ⟨r3, rfl, rfl⟩
        · -- long increased by a buy
          have hq : 0 < o.qty := by nlinarith
          obtain ⟨r1, r2, r3, r4, r5⟩ := recorded_buy t o hL.side hq
          obtain ⟨s1, s2, s3, s4, s5, s6⟩ := step_increase _ p (recorded t o) o e c5 c2 c6 hL.sym h0 hc he hdir hro
          have hnew : 0 < p.qty + o.qty := by linarith
          have hty : p.type = .long := by simp [Pos.type, hp]
          refine ⟨_, _, ⟨s6, s2, s3, ?_, ?_, ?_, ?_, ?_⟩, ?_, ?_, ?_, ?_⟩
          · simp [r1, r2, qtySum_append]; linarith
          · intro h; exact absurd h hc
          · intro _; refine ⟨⟨_, rfl⟩, by rw [r5]; exact hopen, ?_⟩
            rw [r4, htype, hty]; simp [Pos.type, hnew]
          · intro r hr; rw [r1] at hr; simp at hr; rcases hr with hr | hr
            · exact hbp r hr
            · rw [hr]; simpa using hq
          · intro r hr; rw [r2] at hr; exact hsp r hr
          · rw [ledger_of _ _ _ s2 s3, hlw, closedPnl_of _ w (by rw [s4, c3]) (by rw [s5, c4]), s1, c1, s5, c4, hfee,
              absR_of_pos _ hq]
            simp only [openTerm, r1, r2, notional_append, estimateAveragePrice, he, absR_absR]
            simp [absR_of_pos _ hq, absR_of_pos _ hp]
            have hden : o.qty + p.qty ≠ 0 := by linarith
            field_simp
            ring
          · rfl
          · rw [s4, c3]; simp [hc]
          · intro _; exact ⟨r3, rfl, rfl⟩

/-- a run of order executions in which every order exists, is active, and is legal against the
    position it meets -/
def LegalRun (w : World) : List Nat → Prop
  | [] => True
  | id :: rest => (∃ o, w.orders[id]? = some o ∧ o.status = .active ∧ Legal (getD w.pos 0) o) ∧ LegalRun (execute w id) rest

theorem history_main (w : World) (p : Pos) (t : Trade) (hI : Inv w p t) (ids : List Nat) (hlegal : LegalRun w ids) :
    ∃ p' t', Inv (ids.foldl execute w) p' t' ∧ ledger (ids.foldl execute w) = ledger w := by
  induction ids generalizing w p t with
  | nil => exact ⟨p, t, hI, rfl⟩
  | cons id rest ih =>
    obtain ⟨⟨o, ho, ha, hL⟩, hrest⟩ := hlegal
    have hg : getD w.pos 0 = p := by rw [hI.pos1]; rfl
    rw [hg] at hL
    obtain ⟨p1, t1, hI1, hl1, _, _, _⟩ := fill_step_main w p t id o hI hL ho ha
    obtain ⟨p2, t2, hI2, hl2⟩ := ih (execute w id) p1 t1 hI1 hrest
    exact ⟨p2, t2, by simpa using hI2, by simp only [List.foldl_cons]; rw [hl2, hl1]⟩

theorem ledger_flat (w : World) (p : Pos) (t : Trade) (hI : Inv w p t) (hflat : p.qty = 0) :
    ledger w = w.wallet - closedPnl w := by
  obtain ⟨_, ht⟩ := hI.flat hflat
  rw [ledger_of w p t hI.pos1 hI.temp1, ht]
  simp [openTerm, notional, hflat]

theorem net_pnl_main (w : World) (p : Pos) (hI : Inv w p {}) (hflat : p.qty = 0) (ids : List Nat)
    (hlegal : LegalRun w ids) (p' : Pos) (t' : Trade) (hI' : Inv (ids.foldl execute w) p' t') (hflat' : p'.qty = 0) :
    (ids.foldl execute w).wallet - w.wallet = closedPnl (ids.foldl execute w) - closedPnl w := by
  obtain ⟨_, _, _, hl⟩ := history_main w p {} hI ids hlegal
  rw [ledger_flat _ p' t' hI' hflat', ledger_flat w p {} hI hflat] at hl
  linarith

end TradeLogLemmas
