/-
  Proofs/Lemmas/Metrics.lean — helper lemmas for C16 (metrics are consistent).
  Filters and sums; the vectorised streak formula as a left-to-right scan and the scan as the
  reference run lengths; extremes; means and expectancy; counting sampled loop indices; what the
  pandas drawdown pipeline computes; daily-return statistics.
-/
import Proofs.Lemmas.Num
import Jesse.Metrics
import Spec.MetricsSpec

namespace Jesse.Metrics
open Jesse Spec.Metrics

/-! ### filters and sums -/

theorem winners_cons (t : Trade) (ts : List Trade) :
    winners (t :: ts) = if 0 < t.pnl then t :: winners ts else winners ts := by
  simp [winners, List.filter_cons]

theorem losers_cons (t : Trade) (ts : List Trade) :
    losers (t :: ts) = if t.pnl < 0 then t :: losers ts else losers ts := by
  simp [losers, List.filter_cons]

theorem breakEven_cons (t : Trade) (ts : List Trade) :
    breakEven (t :: ts) = if t.pnl = 0 then t :: breakEven ts else breakEven ts := by
  simp [breakEven, List.filter_cons]

theorem count_partition (ts : List Trade) :
    ts.length = (winners ts).length + (losers ts).length + (breakEven ts).length := by
  induction ts with
  | nil => rfl
  | cons t ts ih =>
    rw [winners_cons, losers_cons, breakEven_cons]
    rcases lt_trichotomy t.pnl 0 with h | h | h
    · have h1 : ¬ 0 < t.pnl := not_lt.mpr (le_of_lt h)
      have h2 : ¬ t.pnl = 0 := ne_of_lt h
      rw [if_pos h, if_neg h1, if_neg h2]; simp only [List.length_cons]; omega
    · have h1 : ¬ 0 < t.pnl := by rw [h]; exact lt_irrefl _
      have h2 : ¬ t.pnl < 0 := by rw [h]; exact lt_irrefl _
      rw [if_pos h, if_neg h1, if_neg h2]; simp only [List.length_cons]; omega
    · have h1 : ¬ t.pnl < 0 := not_lt.mpr (le_of_lt h)
      have h2 : ¬ t.pnl = 0 := ne_of_gt h
      rw [if_pos h, if_neg h1, if_neg h2]; simp only [List.length_cons]; omega

theorem longs_shorts_partition (ts : List Trade) :
    ts.length = (longs ts).length + (shorts ts).length := by
  induction ts with
  | nil => rfl
  | cons t ts ih =>
    cases ht : t.type <;> simp [longs, shorts, ht] at * <;> omega

theorem sum_split (ts : List Trade) :
    sumR (pnls ts) = sumR (pnls (winners ts)) + sumR (pnls (losers ts)) := by
  induction ts with
  | nil => simp [pnls, winners, losers, sumR]
  | cons t ts ih =>
    rw [winners_cons, losers_cons]
    rcases lt_trichotomy t.pnl 0 with h | h | h
    · have h1 : ¬ 0 < t.pnl := not_lt.mpr (le_of_lt h)
      rw [if_pos h, if_neg h1]; simp only [pnls, List.map_cons, sumR] at *
      rw [ih]; ring
    · have h1 : ¬ 0 < t.pnl := by rw [h]; exact lt_irrefl _
      have h2 : ¬ t.pnl < 0 := by rw [h]; exact lt_irrefl _
      rw [if_neg h1, if_neg h2]; simp only [pnls, List.map_cons, sumR] at *
      rw [ih, h]; ring
    · have h1 : ¬ t.pnl < 0 := not_lt.mpr (le_of_lt h)
      rw [if_pos h, if_neg h1]; simp only [pnls, List.map_cons, sumR] at *
      rw [ih]; ring

theorem sumR_eq_spec (l : List Rat) : sumR l = Spec.Metrics.sum l := by
  induction l with
  | nil => rfl
  | cons x xs ih => simp [sumR, Spec.Metrics.sum, ih]

def runStep (r : Int) (x : Rat) : Int :=
  if 0 < x then (if 0 < r then r + 1 else 1) else if x < 0 then (if r < 0 then r - 1 else -1) else 0

def runsFrom (r : Int) : List Rat → List Int
  | [] => []
  | x :: xs => runStep r x :: runsFrom (runStep r x) xs

theorem posFlag_eq (x : Rat) : b2i (astypeBool (npClip 0 1 x)) = if 0 < x then 1 else 0 := by
  unfold b2i astypeBool npClip minR maxR
  grind

theorem negFlag_eq (x : Rat) : b2i (astypeBool (npClip (-1) 0 x)) = if x < 0 then 1 else 0 := by
  unfold b2i astypeBool npClip minR maxR
  grind

/-- the vectorised expression with running accumulators (counts so far, maxima so far) -/
def csFrom (P N m1 m2 : Int) (arr : List Rat) : List Int :=
  npWhere (geZero arr)
    (subL (cumsumFrom P (posFlags arr))
      (maxAccFrom m1 (npWhere (leZero arr) (cumsumFrom P (posFlags arr)) (zerosLike arr))))
    (addL (negL (cumsumFrom N (negFlags arr)))
      (maxAccFrom m2 (npWhere (geZero arr) (cumsumFrom N (negFlags arr)) (zerosLike arr))))

theorem csFrom_nil (P N m1 m2 : Int) : csFrom P N m1 m2 [] = [] := by
  simp [csFrom, geZero, npWhere]

theorem csFrom_cons (P N m1 m2 : Int) (x : Rat) (xs : List Rat) :
    csFrom P N m1 m2 (x :: xs) =
      (if 0 ≤ x then (P + (if 0 < x then 1 else 0)) - max m1 (if x ≤ 0 then P + (if 0 < x then 1 else 0) else 0)
        else -(N + (if x < 0 then 1 else 0)) + max m2 (if 0 ≤ x then N + (if x < 0 then 1 else 0) else 0))
      :: csFrom (P + (if 0 < x then 1 else 0)) (N + (if x < 0 then 1 else 0))
          (max m1 (if x ≤ 0 then P + (if 0 < x then 1 else 0) else 0))
          (max m2 (if 0 ≤ x then N + (if x < 0 then 1 else 0) else 0)) xs := by
  simp only [csFrom, geZero, leZero, posFlags, negFlags, zerosLike, List.map_cons, cumsumFrom, npWhere,
    maxAccFrom, subL, addL, negL, List.zipWith_cons_cons, posFlag_eq, negFlag_eq, decide_eq_true_eq]

theorem csFrom_eq_runs (arr : List Rat) : ∀ (P N m1 m2 r : Int),
    0 ≤ m1 → m1 ≤ P → 0 ≤ m2 → m2 ≤ N →
    (0 < r → P - m1 = r ∧ m2 = N) → (r < 0 → N - m2 = -r ∧ m1 = P) → (r = 0 → m1 = P ∧ m2 = N) →
    csFrom P N m1 m2 arr = runsFrom r arr := by
  induction arr with
  | nil => intros; simp [csFrom_nil, runsFrom]
  | cons x xs ih =>
    intro P N m1 m2 r h1 h2 h3 h4 hp hn hz
    rw [csFrom_cons, runsFrom]
    rcases lt_trichotomy x 0 with hx | hx | hx
    · have a1 : ¬ 0 < x := not_lt.mpr (le_of_lt hx)
      have a2 : ¬ 0 ≤ x := not_le.mpr hx
      have a3 : x ≤ 0 := le_of_lt hx
      simp only [a1, a2, a3, hx, if_true, if_false, runStep]
      congr 1
      · split <;> omega
      · apply ih <;> (try split) <;> omega
    · subst hx
      simp only [lt_irrefl, le_refl, if_true, if_false, runStep]
      congr 1
      · omega
      · apply ih <;> omega
    · have a1 : ¬ x < 0 := not_lt.mpr (le_of_lt hx)
      have a2 : ¬ x ≤ 0 := not_le.mpr hx
      have a3 : 0 ≤ x := le_of_lt hx
      simp only [a1, a2, a3, hx, if_true, if_false, runStep]
      congr 1
      · split <;> omega
      · apply ih <;> (try split) <;> omega

theorem currentStreakArr_eq_runs (arr : List Rat) : currentStreakArr arr = runsFrom 0 arr := by
  cases arr with
  | nil => simp [currentStreakArr, geZero, npWhere, runsFrom]
  | cons x xs =>
    have key : currentStreakArr (x :: xs) = csFrom 0 0 0 0 (x :: xs) := by
      simp only [currentStreakArr, csFrom, posCum, negCum, cumsum, geZero, leZero, posFlags, negFlags,
        zerosLike, List.map_cons, cumsumFrom, npWhere, maxAcc, maxAccFrom, posFlag_eq, negFlag_eq]
      have e1 : max 0 (if decide (x ≤ 0) = true then (0:Int) + (if 0 < x then 1 else 0) else 0)
          = (if decide (x ≤ 0) = true then (0:Int) + (if 0 < x then 1 else 0) else 0) := by
        split <;> (try split) <;> omega
      have e2 : max 0 (if decide (0 ≤ x) = true then (0:Int) + (if x < 0 then 1 else 0) else 0)
          = (if decide (0 ≤ x) = true then (0:Int) + (if x < 0 then 1 else 0) else 0) := by
        split <;> (try split) <;> omega
      rw [e1, e2]
    rw [key]
    exact csFrom_eq_runs _ 0 0 0 0 0 (le_refl _) (le_refl _) (le_refl _) (le_refl _)
      (fun h => absurd h (lt_irrefl _)) (fun h => absurd h (lt_irrefl _)) (fun _ => ⟨rfl, rfl⟩)

/-! ### scan ↔ reference runs -/

theorem prefixRun_cons (p : Rat → Bool) (x : Rat) (xs : List Rat) :
    prefixRun p (x :: xs) = if p x then 1 + prefixRun p xs else 0 := by
  unfold prefixRun
  rw [List.takeWhile_cons]
  split <;> simp [Nat.add_comm]

theorem prefixRun_le_longestRun (p : Rat → Bool) (l : List Rat) : prefixRun p l ≤ longestRun p l := by
  cases l with
  | nil => simp [prefixRun, longestRun]
  | cons x xs => unfold longestRun; omega

theorem maxFromI_max (l : List Int) : ∀ (m k : Int), max (maxFromI m l) k = maxFromI (max m k) l := by
  induction l with
  | nil => intros; rfl
  | cons x xs ih => intro m k; simp only [maxFromI]; rw [ih]; congr 1; omega

theorem minFromI_min (l : List Int) : ∀ (m k : Int), min (minFromI m l) k = minFromI (min m k) l := by
  induction l with
  | nil => intros; rfl
  | cons x xs ih => intro m k; simp only [minFromI]; rw [ih]; congr 1; omega

theorem maxFromI_runs (xs : List Rat) : ∀ (m r : Int), r ≤ m → 0 ≤ m →
    maxFromI m (runsFrom r xs)
      = max m (max (max r 0 + (prefixRun isPos xs : Int)) (longestRun isPos xs : Int)) := by
  induction xs with
  | nil => intro m r h1 h2; simp [runsFrom, maxFromI, prefixRun, longestRun]; omega
  | cons x xs ih =>
    intro m r h1 h2
    have hle := prefixRun_le_longestRun isPos xs
    simp only [runsFrom, maxFromI, longestRun]
    rw [prefixRun_cons]
    by_cases hx : 0 < x
    · have hp : isPos x = true := by simp [isPos, hx]
      have hr : runStep r x = max r 0 + 1 := by unfold runStep; rw [if_pos hx]; split <;> omega
      rw [ih _ _ (by omega) (by omega), hp, hr]
      simp only [if_true]
      push_cast
      omega
    · have hp : isPos x = false := by simp [isPos, hx]
      have hr : runStep r x ≤ 0 := by
        unfold runStep; rw [if_neg hx]; split
        · split <;> omega
        · omega
      rw [ih _ _ (by omega) (by omega), hp]
      simp only [Bool.false_eq_true, if_false]
      push_cast
      omega

theorem minFromI_runs (xs : List Rat) : ∀ (m r : Int), m ≤ r → m ≤ 0 →
    minFromI m (runsFrom r xs)
      = min m (min (min r 0 - (prefixRun isNeg xs : Int)) (-(longestRun isNeg xs : Int))) := by
  induction xs with
  | nil => intro m r h1 h2; simp [runsFrom, minFromI, prefixRun, longestRun]; omega
  | cons x xs ih =>
    intro m r h1 h2
    have hle := prefixRun_le_longestRun isNeg xs
    simp only [runsFrom, minFromI, longestRun]
    rw [prefixRun_cons]
    by_cases hx : x < 0
    · have hp : isNeg x = true := by simp [isNeg, hx]
      have hx' : ¬ 0 < x := not_lt.mpr (le_of_lt hx)
      have hr : runStep r x = min r 0 - 1 := by
        unfold runStep; rw [if_neg hx', if_pos hx]; split <;> omega
      rw [ih _ _ (by omega) (by omega), hp, hr]
      simp only [if_true]
      push_cast
      omega
    · have hp : isNeg x = false := by simp [isNeg, hx]
      have hr : 0 ≤ runStep r x := by
        unfold runStep; rw [if_neg hx]; split
        · split <;> omega
        · omega
      rw [ih _ _ (by omega) (by omega), hp]
      simp only [Bool.false_eq_true, if_false]
      push_cast
      omega

theorem winning_eq (arr : List Rat) : max (arrMax (runsFrom 0 arr)) 0 = (longestRun isPos arr : Int) := by
  cases arr with
  | nil => simp [runsFrom, arrMax, longestRun]
  | cons x xs =>
    have h : max (arrMax (runsFrom 0 (x :: xs))) 0 = maxFromI 0 (runsFrom 0 (x :: xs)) := by
      simp only [runsFrom, arrMax, maxFromI]
      rw [maxFromI_max]; congr 1; omega
    rw [h, maxFromI_runs _ 0 0 (le_refl _) (le_refl _)]
    have hle := prefixRun_le_longestRun isPos (x :: xs)
    omega

theorem losing_eq (arr : List Rat) :
    (if 0 < arrMin (runsFrom 0 arr) then 0 else ((arrMin (runsFrom 0 arr)).natAbs : Int))
      = (longestRun isNeg arr : Int) := by
  cases arr with
  | nil => simp [runsFrom, arrMin, longestRun]
  | cons x xs =>
    have h : min (arrMin (runsFrom 0 (x :: xs))) 0 = minFromI 0 (runsFrom 0 (x :: xs)) := by
      simp only [runsFrom, arrMin, minFromI]
      rw [minFromI_min]; congr 1; omega
    have h2 := minFromI_runs (x :: xs) 0 0 (le_refl _) (le_refl _)
    have hle := prefixRun_le_longestRun isNeg (x :: xs)
    split <;> omega

/-! the signed current run -/

theorem prefixRun_exclusive (l : List Rat) : prefixRun isPos l = 0 ∨ prefixRun isNeg l = 0 := by
  cases l with
  | nil => left; rfl
  | cons y ys =>
    rw [prefixRun_cons, prefixRun_cons]
    by_cases hy : 0 < y
    · right
      have : isNeg y = false := by simp [isNeg]; exact le_of_lt hy
      simp [this]
    · left
      have : isPos y = false := by simp [isPos]; exact not_lt.mp hy
      simp [this]

theorem trailingRun_snoc (p : Rat → Bool) (pre : List Rat) (x : Rat) :
    trailingRun p (pre ++ [x]) = if p x then 1 + trailingRun p pre else 0 := by
  unfold trailingRun
  rw [List.reverse_append, List.reverse_singleton, List.singleton_append, prefixRun_cons]

theorem runStep_signed (pre : List Rat) (x : Rat) :
    runStep (signedCurrentRun pre) x = signedCurrentRun (pre ++ [x]) := by
  unfold signedCurrentRun
  rw [trailingRun_snoc, trailingRun_snoc]
  have hex := prefixRun_exclusive pre.reverse
  unfold trailingRun
  unfold runStep
  rcases lt_trichotomy x 0 with hx | hx | hx
  · have a1 : ¬ 0 < x := not_lt.mpr (le_of_lt hx)
    have p1 : isPos x = false := by simp [isPos]; exact le_of_lt hx
    have p2 : isNeg x = true := by simp [isNeg, hx]
    rw [if_neg a1, if_pos hx, p1, p2]
    simp only [Bool.false_eq_true, if_true, if_false]
    push_cast
    split <;> omega
  · subst hx
    have p1 : isPos (0:Rat) = false := by simp [isPos]
    have p2 : isNeg (0:Rat) = false := by simp [isNeg]
    rw [if_neg (lt_irrefl _), if_neg (lt_irrefl _), p1, p2]
    simp
  · have p1 : isPos x = true := by simp [isPos, hx]
    have p2 : isNeg x = false := by simp [isNeg]; exact le_of_lt hx
    rw [if_pos hx, p1, p2]
    simp only [Bool.false_eq_true, if_true, if_false]
    push_cast
    split <;> omega

theorem arrLast_runs (xs : List Rat) : ∀ (pre : List Rat), xs ≠ [] →
    arrLast (runsFrom (signedCurrentRun pre) xs) = signedCurrentRun (pre ++ xs) := by
  induction xs with
  | nil => intro pre h; exact absurd rfl h
  | cons x xs ih =>
    intro pre _
    cases xs with
    | nil => simp only [runsFrom, arrLast]; exact runStep_signed pre x
    | cons y ys =>
      have := ih (pre ++ [x]) (by simp)
      rw [← runStep_signed] at this
      simp only [runsFrom, arrLast] at this ⊢
      rw [this]; simp

theorem current_eq (arr : List Rat) : arrLast (runsFrom 0 arr) = signedCurrentRun arr := by
  cases arr with
  | nil => simp [runsFrom, arrLast, signedCurrentRun, trailingRun, prefixRun]
  | cons x xs =>
    have h0 : signedCurrentRun [] = 0 := by simp [signedCurrentRun, trailingRun, prefixRun]
    have := arrLast_runs (x :: xs) [] (by simp)
    rw [h0] at this
    simpa using this

/-! ### extremes -/

theorem maxFromR_spec (l : List Rat) : ∀ m : Rat,
    (maxFromR m l = m ∨ maxFromR m l ∈ l) ∧ m ≤ maxFromR m l ∧ ∀ x ∈ l, x ≤ maxFromR m l := by
  induction l with
  | nil => intro m; simp [maxFromR]
  | cons y ys ih =>
    intro m
    obtain ⟨h1, h2, h3⟩ := ih (maxR m y)
    have hm : m ≤ maxR m y := by rw [maxR_eq_max]; exact le_max_left _ _
    have hy : y ≤ maxR m y := by rw [maxR_eq_max]; exact le_max_right _ _
    have hc : maxR m y = m ∨ maxR m y = y := by unfold maxR; split <;> simp
    simp only [maxFromR]
    refine ⟨?_, le_trans hm h2, ?_⟩
    · rcases h1 with h1 | h1
      · rcases hc with hc | hc
        · left; rw [h1, hc]
        · right; rw [h1, hc]; exact List.mem_cons_self
      · right; exact List.mem_cons_of_mem _ h1
    · intro x hx
      rcases List.mem_cons.mp hx with hx | hx
      · rw [hx]; exact le_trans hy h2
      · exact h3 x hx

theorem minFromR_spec (l : List Rat) : ∀ m : Rat,
    (minFromR m l = m ∨ minFromR m l ∈ l) ∧ minFromR m l ≤ m ∧ ∀ x ∈ l, minFromR m l ≤ x := by
  induction l with
  | nil => intro m; simp [minFromR]
  | cons y ys ih =>
    intro m
    obtain ⟨h1, h2, h3⟩ := ih (minR m y)
    have hm : minR m y ≤ m := minR_le_left _ _
    have hy : minR m y ≤ y := minR_le_right _ _
    have hc : minR m y = m ∨ minR m y = y := by unfold minR; split <;> simp
    simp only [minFromR]
    refine ⟨?_, le_trans h2 hm, ?_⟩
    · rcases h1 with h1 | h1
      · rcases hc with hc | hc
        · left; rw [h1, hc]
        · right; rw [h1, hc]; exact List.mem_cons_self
      · right; exact List.mem_cons_of_mem _ h1
    · intro x hx
      rcases List.mem_cons.mp hx with hx | hx
      · rw [hx]; exact le_trans h2 hy
      · exact h3 x hx

theorem colMax_isGreatest (l : List Rat) (h : l ≠ []) : ∃ v, colMax l = some v ∧ IsGreatest v l := by
  cases l with
  | nil => exact absurd rfl h
  | cons x xs =>
    obtain ⟨h1, h2, h3⟩ := maxFromR_spec xs x
    refine ⟨maxFromR x xs, rfl, ?_, ?_⟩
    · rcases h1 with h1 | h1
      · rw [h1]; exact List.mem_cons_self
      · exact List.mem_cons_of_mem _ h1
    · intro y hy
      rcases List.mem_cons.mp hy with hy | hy
      · rw [hy]; exact h2
      · exact h3 y hy

theorem colMin_isLeast (l : List Rat) (h : l ≠ []) : ∃ v, colMin l = some v ∧ IsLeast v l := by
  cases l with
  | nil => exact absurd rfl h
  | cons x xs =>
    obtain ⟨h1, h2, h3⟩ := minFromR_spec xs x
    refine ⟨minFromR x xs, rfl, ?_, ?_⟩
    · rcases h1 with h1 | h1
      · rw [h1]; exact List.mem_cons_self
      · exact List.mem_cons_of_mem _ h1
    · intro y hy
      rcases List.mem_cons.mp hy with hy | hy
      · rw [hy]; exact h2
      · exact h3 y hy

/-! ### means and expectancy -/

theorem meanR_of_ne_nil (l : List Rat) (h : l ≠ []) : meanR l = some (sumR l / (l.length : Rat)) := by
  cases l with
  | nil => exact absurd rfl h
  | cons x xs => simp [meanR]

theorem meanR_nil : meanR [] = none := by simp [meanR]

theorem pnls_length (ts : List Trade) : (pnls ts).length = ts.length := by simp [pnls]

theorem grossLoss_nonpos (ts : List Trade) : sumR (pnls (losers ts)) ≤ 0 := by
  induction ts with
  | nil => simp [losers, pnls, sumR]
  | cons t ts ih =>
    rw [losers_cons]
    split
    · simp only [pnls, List.map_cons, sumR] at *; linarith
    · exact ih

theorem sum_nil_of_length_zero (ts : List Trade) (h : ts.length = 0) : sumR (pnls ts) = 0 := by
  have : ts = [] := List.length_eq_zero_iff.mp h
  subst this; rfl

theorem averageWin_eq (ts : List Trade) (h : (winners ts).length ≠ 0) :
    averageWin ts = some (grossProfit ts / ((winners ts).length : Rat)) := by
  unfold averageWin grossProfit
  rw [meanR_of_ne_nil _ (by intro h0; apply h; rw [← pnls_length, h0]; rfl), pnls_length]

theorem averageLoss_eq (ts : List Trade) (h : (losers ts).length ≠ 0) :
    averageLoss ts = some (-(grossLoss ts) / ((losers ts).length : Rat)) := by
  unfold averageLoss grossLoss
  rw [meanR_of_ne_nil _ (by intro h0; apply h; rw [← pnls_length, h0]; rfl), pnls_length]
  simp only [Option.map_some, Option.some.injEq]
  have hL : (0:Rat) < ((losers ts).length : Rat) := by exact_mod_cast Nat.pos_of_ne_zero h
  have hle := grossLoss_nonpos ts
  rw [absR_eq_abs, abs_of_nonpos (div_nonpos_of_nonpos_of_nonneg hle (le_of_lt hL))]
  ring

theorem averageWin_none (ts : List Trade) (h : (winners ts).length = 0) : averageWin ts = none := by
  unfold averageWin
  rw [List.length_eq_zero_iff.mp h]; rfl

theorem averageLoss_none (ts : List Trade) (h : (losers ts).length = 0) : averageLoss ts = none := by
  unfold averageLoss
  rw [List.length_eq_zero_iff.mp h]; rfl

theorem expectancy_mul (ts : List Trade) :
    expectancy ts * (((winners ts).length : Rat) + ((losers ts).length : Rat))
      = grossProfit ts + grossLoss ts := by
  unfold expectancy winRate
  by_cases hw : (winners ts).length = 0
  · rw [averageWin_none ts hw, if_pos hw]
    have gp : grossProfit ts = 0 := sum_nil_of_length_zero _ hw
    by_cases hl : (losers ts).length = 0
    · rw [averageLoss_none ts hl]
      have gl : grossLoss ts = 0 := sum_nil_of_length_zero _ hl
      simp [hw, hl, gp, gl]
    · rw [averageLoss_eq ts hl, gp, hw]
      have hL : ((losers ts).length : Rat) ≠ 0 := by exact_mod_cast hl
      simp only [Option.getD_some, Option.getD_none]
      field_simp
      ring
  · rw [averageWin_eq ts hw, if_neg hw]
    have hW : ((winners ts).length : Rat) ≠ 0 := by exact_mod_cast hw
    have hWp : (0:Rat) < ((winners ts).length : Rat) := by exact_mod_cast Nat.pos_of_ne_zero hw
    by_cases hl : (losers ts).length = 0
    · rw [averageLoss_none ts hl]
      have gl : grossLoss ts = 0 := sum_nil_of_length_zero _ hl
      simp only [Option.getD_some, Option.getD_none, hl, gl]
      field_simp
      ring
    · rw [averageLoss_eq ts hl]
      have hL : ((losers ts).length : Rat) ≠ 0 := by exact_mod_cast hl
      have hLp : (0:Rat) < ((losers ts).length : Rat) := by exact_mod_cast Nat.pos_of_ne_zero hl
      have hS : ((losers ts).length : Rat) + ((winners ts).length : Rat) ≠ 0 := by positivity
      simp only [Option.getD_some]
      field_simp
      ring

/-! ### counting sampled loop indices -/

theorem count_nonzero_multiples (q : Nat) (K : Nat) :
    ((List.range K).filter (fun k => decide (k ≠ 0) && decide (k % q = 0))).length = (K - 1) / q := by
  induction K with
  | zero => simp
  | succ K ih =>
    rw [List.range_succ, List.filter_append, List.length_append, ih]
    cases K with
    | zero => simp
    | succ K =>
      simp only [Nat.add_sub_cancel, List.filter_cons, List.filter_nil]
      rw [Nat.succ_div]
      by_cases hd : q ∣ K + 1
      · have : (K + 1) % q = 0 := Nat.mod_eq_zero_of_dvd hd
        simp [hd, this]
      · have : ¬ (K + 1) % q = 0 := fun h => hd (Nat.dvd_of_mod_eq_zero h)
        simp [hd, this]

theorem stepSampleIdx_length (n : Nat) : (stepSampleIdx n).length = (n - 1) / 1440 := by
  unfold stepSampleIdx stepLoop
  have h := count_nonzero_multiples 1440 n
  have e : samplesAt = (fun k => decide (k ≠ 0) && decide (k % 1440 = 0)) := by
    funext k; rfl
  rw [e]; exact h

theorem fastLoop_count (n c : Nat) (hc : 0 < c) : (n + c - 1) / c - 1 = (n - 1) / c := by
  cases n with
  | zero =>
    have : (c - 1) / c = 0 := Nat.div_eq_of_lt (by omega)
    simp [this]
  | succ n =>
    have : n + 1 + c - 1 = n + c := by omega
    rw [this, Nat.add_div_right _ hc]; simp

theorem fastSampleIdx_length_filter (n c : Nat) :
    (fastSampleIdx n c).length
      = ((List.range ((n + c - 1) / c)).filter (fun k => samplesAt (k * c))).length := by
  unfold fastSampleIdx fastLoop
  rw [List.filter_map, List.length_map]
  rfl

/-- chunk sizes that divide a day (every gcd of timeframes up to 1D) -/
theorem fastSampleIdx_length_of_dvd (n c : Nat) (hc : c ∣ 1440) :
    (fastSampleIdx n c).length = (n - 1) / 1440 := by
  obtain ⟨q, hq⟩ := hc
  have hc0 : 0 < c := Nat.pos_of_ne_zero (by rintro rfl; omega)
  have hq0 : 0 < q := Nat.pos_of_ne_zero (by rintro rfl; omega)
  rw [fastSampleIdx_length_filter]
  have e : (fun k => samplesAt (k * c)) = (fun k => decide (k ≠ 0) && decide (k % q = 0)) := by
    funext k
    unfold samplesAt
    have h1 : (k * c ≠ 0) ↔ (k ≠ 0) := by
      constructor
      · intro h hk; apply h; rw [hk]; simp
      · intro h hk; rcases Nat.mul_eq_zero.mp hk with h' | h' <;> omega
    have h2 : (k * c % 1440 = 0) ↔ (k % q = 0) := by
      rw [hq, Nat.mul_comm c q, Nat.mul_mod_mul_right]
      constructor
      · intro h; rcases Nat.mul_eq_zero.mp h with h' | h' <;> omega
      · intro h; rw [h]; simp
    simp only [h1, h2]
  rw [e, count_nonzero_multiples q, fastLoop_count n c hc0, Nat.div_div_eq_div_mul, hq]

/-- chunk sizes of whole days (3D, 1W, 1M routes only) -/
theorem fastSampleIdx_length_of_mul (n c : Nat) (hc0 : 0 < c) (hc : 1440 ∣ c) :
    (fastSampleIdx n c).length = (n - 1) / c := by
  obtain ⟨d, hd⟩ := hc
  rw [fastSampleIdx_length_filter]
  have e : (fun k => samplesAt (k * c)) = (fun k => decide (k ≠ 0) && decide (k % 1 = 0)) := by
    funext k
    unfold samplesAt
    have h1 : (k * c ≠ 0) ↔ (k ≠ 0) := by
      constructor
      · intro h hk; apply h; rw [hk]; simp
      · intro h hk; rcases Nat.mul_eq_zero.mp hk with h' | h' <;> omega
    have h2 : (k * c % 1440 = 0) := by
      rw [hd, ← Nat.mul_assoc, Nat.mul_comm (k * 1440) d, ← Nat.mul_assoc]; exact Nat.mul_mod_left _ _
    simp [h1, h2, Nat.mod_one]
  rw [e, count_nonzero_multiples 1, fastLoop_count n c hc0, Nat.div_one]

/-! ### drawdown: what the pandas pipeline computes -/

theorem cumprod_pctTail (xs : List Rat) : ∀ (prev acc : Rat), prev ≠ 0 → (∀ x ∈ xs, x ≠ 0) →
    cumprodSkip acc (pctTail prev xs) = xs.map (fun x => some (acc / prev * x)) := by
  induction xs with
  | nil => intros; rfl
  | cons x xs ih =>
    intro prev acc hp hx
    have hx0 : x ≠ 0 := hx x List.mem_cons_self
    have e1 : acc * (x / prev - 1 + 1) = acc / prev * x := by field_simp; ring
    simp only [pctTail, cumprodSkip, List.map_cons]
    rw [ih x _ hx0 (fun y hy => hx y (List.mem_cons_of_mem _ hy)), e1]
    congr 1
    apply List.map_congr_left
    intro y _
    have : acc / prev * x / x = acc / prev := by field_simp
    rw [this]

theorem maxR_scale (k a b : Rat) (hk : 0 < k) : maxR (k * a) (k * b) = k * maxR a b := by
  unfold maxR
  by_cases h : a < b
  · have : k * a < k * b := by nlinarith
    rw [if_pos h, if_pos this]
  · have : ¬ k * a < k * b := by intro h'; apply h; nlinarith
    rw [if_neg h, if_neg this]

theorem ratios_scaled (es : List Rat) : ∀ (k peak : Rat), 0 < k →
    divSkip (es.map (fun x => some (k * x)))
        (expandingMaxSkip (some (k * peak)) (es.map (fun x => some (k * x))))
      = (peakRatiosFrom peak es).map some := by
  induction es with
  | nil => intros; rfl
  | cons e es ih =>
    intro k peak hk
    simp only [List.map_cons, expandingMaxSkip, divSkip, peakRatiosFrom]
    rw [maxR_scale k peak e hk, ih k _ hk, mul_div_mul_left _ _ (ne_of_gt hk)]

theorem minSkip_map_some (l : List Rat) : minSkip (l.map some) = listMin l := by
  induction l with
  | nil => rfl
  | cons x xs ih =>
    simp only [List.map_cons, minSkip, listMin, ih]
    cases listMin xs <;> rfl

theorem maxR_self (a : Rat) : maxR a a = a := by unfold maxR; simp

theorem fillna0_pctTail (xs : List Rat) : ∀ p : Rat, fillna0 (pctTail p xs) = pctTail p xs := by
  induction xs with
  | nil => intro p; rfl
  | cons x xs ih => intro p; simp only [pctTail, fillna0, ih]

/-- the ratio list `prices / running max` of the repaired pipeline is the reference one, start included -/
theorem ddRatios_pctChange (b0 : Rat) (bs : List Rat) (h0 : 0 < b0) (hs : ∀ x ∈ bs, x ≠ 0) :
    divSkip (ddPrices (pctChange (b0 :: bs))) (expandingMaxSkip none (ddPrices (pctChange (b0 :: bs))))
      = (peakRatios (b0 :: bs)).map some := by
  have hk : (0:Rat) < 1 / b0 := by positivity
  have h1 : (1:Rat) * (0 + 1) = 1 := by norm_num
  have hb : (1:Rat) = 1 / b0 * b0 := by field_simp
  unfold ddPrices
  simp only [pctChange, fillna0, fillna0_pctTail, cumprodSkip, h1]
  rw [cumprod_pctTail bs b0 1 (ne_of_gt h0) hs]
  simp only [expandingMaxSkip, divSkip, peakRatios, peakRatiosFrom, List.map_cons, maxR_self]
  have := ratios_scaled bs (1 / b0) b0 hk
  rw [← hb] at this
  rw [this, div_self (ne_of_gt h0)]
  norm_num

/-- the repaired drawdown is the standard drawdown of the whole balance series, the start included -/
theorem maxDrawdown_pctChange (b0 : Rat) (bs : List Rat) (h0 : 0 < b0) (hs : ∀ x ∈ bs, x ≠ 0) :
    Jesse.Metrics.maxDrawdown (pctChange (b0 :: bs)) = Spec.Metrics.maxDrawdown (b0 :: bs) := by
  unfold Jesse.Metrics.maxDrawdown Spec.Metrics.maxDrawdown
  rw [ddRatios_pctChange b0 bs h0 hs, minSkip_map_some]

theorem minR_sub_one (x m : Rat) : minR (x - 1) (m - 1) = minR x m - 1 := by
  unfold minR; grind

theorem minSkip_subOne (l : List (Option Rat)) : minSkip (subOneSkip l) = (minSkip l).map (· - 1) := by
  induction l with
  | nil => rfl
  | cons o os ih =>
    unfold subOneSkip at *
    cases o with
    | none => simpa [minSkip] using ih
    | some x =>
      simp only [List.map_cons, Option.map_some, minSkip, ih]
      cases minSkip os with
      | none => rfl
      | some m => simp [minR_sub_one]

/-- the drawdown inside `calmar_ratio` is the absolute value of the same standard drawdown -/
theorem calmarDrawdown_pctChange (b0 : Rat) (bs : List Rat) (h0 : 0 < b0) (hs : ∀ x ∈ bs, x ≠ 0) :
    calmarDrawdown (pctChange (b0 :: bs)) = (Spec.Metrics.maxDrawdown (b0 :: bs)).map absR := by
  unfold calmarDrawdown Spec.Metrics.maxDrawdown
  rw [ddRatios_pctChange b0 bs h0 hs, minSkip_subOne, minSkip_map_some]

theorem listMin_cons_le (x : Rat) (xs : List Rat) : ∃ m, listMin (x :: xs) = some m ∧ m ≤ x := by
  simp only [listMin]
  cases listMin xs with
  | none => exact ⟨x, rfl, le_refl _⟩
  | some m => exact ⟨minR x m, rfl, minR_le_left _ _⟩

theorem spec_maxDrawdown_nonpos (e : Rat) (es : List Rat) (he : e ≠ 0) :
    ∃ d, Spec.Metrics.maxDrawdown (e :: es) = some d ∧ d ≤ 0 := by
  unfold Spec.Metrics.maxDrawdown
  simp only [peakRatios, peakRatiosFrom, maxR_self, div_self he]
  obtain ⟨m, hm, hle⟩ := listMin_cons_le 1 (peakRatiosFrom e es)
  rw [hm]
  exact ⟨m - 1, rfl, by linarith⟩

/-! ### daily returns and their statistics -/

theorem validReturns_pctTail (bs : List Rat) : ∀ b : Rat,
    validReturns (pctTail b bs) = Spec.Metrics.returns (b :: bs) := by
  induction bs with
  | nil => intro b; rfl
  | cons x xs ih => intro b; simp only [pctTail, validReturns, Spec.Metrics.returns, ih]

theorem validReturns_pctChange (bal : List Rat) :
    validReturns (pctChange bal) = Spec.Metrics.returns bal := by
  cases bal with
  | nil => rfl
  | cons b bs => simp only [pctChange, validReturns]; exact validReturns_pctTail bs b

theorem pctTail_length (bs : List Rat) : ∀ b : Rat, (pctTail b bs).length = bs.length := by
  induction bs with
  | nil => intro b; rfl
  | cons x xs ih => intro b; simp [pctTail, ih]

theorem pctChange_length (bal : List Rat) : (pctChange bal).length = bal.length := by
  cases bal with
  | nil => rfl
  | cons b bs => simp [pctChange, pctTail_length]

theorem returns_length (bs : List Rat) : ∀ b : Rat, (Spec.Metrics.returns (b :: bs)).length = bs.length := by
  induction bs with
  | nil => intro b; rfl
  | cons x xs ih => intro b; simp [Spec.Metrics.returns, ih]

theorem sqDevSum_eq (m : Rat) (l : List Rat) :
    sqDevSum m l = Spec.Metrics.sum (l.map (fun r => (r - m) * (r - m))) := by
  induction l with
  | nil => rfl
  | cons x xs ih => simp [sqDevSum, Spec.Metrics.sum, ih]

theorem negSqSum_eq (l : List Rat) :
    negSqSum l = Spec.Metrics.sum (l.map (fun r => if r < 0 then r * r else 0)) := by
  induction l with
  | nil => rfl
  | cons x xs ih => simp [negSqSum, Spec.Metrics.sum, ih]

theorem posSum_eq (l : List Rat) : posSum l = gains l := by
  induction l with
  | nil => rfl
  | cons x xs ih => unfold gains at *; simp [posSum, Spec.Metrics.sum, ih]

theorem negSum_eq (l : List Rat) : -1 * negSum l = losses l := by
  induction l with
  | nil => simp [negSum, losses, Spec.Metrics.sum]
  | cons x xs ih =>
    unfold losses at *
    simp only [negSum, List.map_cons, Spec.Metrics.sum]
    rw [← ih]
    split <;> ring

theorem negSqSum_nonneg (l : List Rat) : 0 ≤ negSqSum l := by
  induction l with
  | nil => simp [negSqSum]
  | cons x xs ih =>
    simp only [negSqSum]
    split
    · nlinarith [mul_self_nonneg x]
    · linarith

theorem negSqSum_eq_zero_of_nonneg (l : List Rat) (h : ∀ x ∈ l, 0 ≤ x) : negSqSum l = 0 := by
  induction l with
  | nil => rfl
  | cons x xs ih =>
    have hx : ¬ x < 0 := not_lt.mpr (h x List.mem_cons_self)
    simp only [negSqSum, if_neg hx, ih (fun y hy => h y (List.mem_cons_of_mem _ hy))]
    ring

theorem prodPlusOne_returns (bs : List Rat) : ∀ a : Rat, a ≠ 0 → (∀ x ∈ bs, x ≠ 0) →
    prodPlusOne (Spec.Metrics.returns (a :: bs)) = bs.getLastD a / a := by
  induction bs with
  | nil => intro a ha _; simp [Spec.Metrics.returns, prodPlusOne, div_self ha]
  | cons b rest ih =>
    intro a ha hs
    have hb : b ≠ 0 := hs b List.mem_cons_self
    simp only [Spec.Metrics.returns, prodPlusOne, List.getLastD_cons]
    rw [ih b hb (fun y hy => hs y (List.mem_cons_of_mem _ hy))]
    field_simp
    ring

/-! ### account snapshots -/

theorem futuresSample_eq (ps : List FutPos) : ∀ wallet : Rat,
    futuresSample wallet ps = wallet + Spec.Metrics.sum ((ps.filter (·.isOpen)).map (·.pnl)) := by
  induction ps with
  | nil => intro w; simp [futuresSample, Spec.Metrics.sum]
  | cons p ps ih =>
    intro w
    simp only [futuresSample, List.filter_cons]
    rw [ih]
    cases p.isOpen
    · simp
    · simp only [if_true, List.map_cons, Spec.Metrics.sum]; ring

theorem positionsValue_eq (rs : List SpotRoute) :
    positionsValue rs = Spec.Metrics.sum (rs.map (·.positionValue)) := by
  induction rs with
  | nil => rfl
  | cons r rs ih => simp [positionsValue, Spec.Metrics.sum, ih]

theorem reservedTotal_eq (rs : List SpotRoute) :
    reservedTotal rs = Spec.Metrics.sum (rs.map (·.reservedQuote)) := by
  induction rs with
  | nil => rfl
  | cons r rs ih => simp [reservedTotal, Spec.Metrics.sum, ih]

/-- a sum does not depend on the order of its terms -/
theorem sum_perm {l₁ l₂ : List Rat} (h : l₁.Perm l₂) : Spec.Metrics.sum l₁ = Spec.Metrics.sum l₂ := by
  induction h with
  | nil => rfl
  | cons x _ ih => simp only [Spec.Metrics.sum, ih]
  | swap x y l => simp only [Spec.Metrics.sum]; ring
  | trans _ _ ih1 ih2 => exact ih1.trans ih2

/-! ### the chunk of the fast simulator -/

theorem tfMinutes_day (t : Timeframe) : tfMinutes t ∣ 1440 ∨ 1440 ∣ tfMinutes t := by
  cases t <;> simp [tfMinutes]

theorem tfMinutes_pos (t : Timeframe) : 0 < tfMinutes t := by
  cases t <;> simp [tfMinutes]

theorem chunkOf_day (ts : List Timeframe) (h : ts ≠ []) :
    0 < chunkOf ts ∧ (chunkOf ts ∣ 1440 ∨ 1440 ∣ chunkOf ts) := by
  induction ts with
  | nil => exact absurd rfl h
  | cons t ts ih =>
    simp only [chunkOf]
    refine ⟨Nat.gcd_pos_of_pos_left _ (tfMinutes_pos t), ?_⟩
    cases ts with
    | nil => simp only [chunkOf, Nat.gcd_zero_right]; exact tfMinutes_day t
    | cons u us =>
      obtain ⟨_, ih2⟩ := ih (by simp)
      rcases tfMinutes_day t with ht | ht
      · left; exact Nat.dvd_trans (Nat.gcd_dvd_left _ _) ht
      · rcases ih2 with hc | hc
        · left; exact Nat.dvd_trans (Nat.gcd_dvd_right _ _) hc
        · right; exact Nat.dvd_gcd ht hc

end Jesse.Metrics
