/-
  Proofs/Lemmas/Witness.lean — concrete candle series used by the non-causality witnesses of C13.
-/
import Jesse.Basic

namespace Jesse.Ind

/-- three candles -/
def wA : List Candle := [⟨0, 10, 10, 11, 9, 5⟩, ⟨1, 10, 11, 12, 10, 5⟩, ⟨2, 11, 12, 13, 10, 5⟩]
/-- the same three candles plus one more -/
def wB : List Candle := wA ++ [⟨3, 12, 9, 12, 8, 5⟩]

end Jesse.Ind
