/-
  Proofs/Lemmas/Frame.lean — frame facts for C02: whatever the strategy layer does in reaction to a fill
  (hooks that submit, cancel and replace orders), an order that already exists keeps its symbol and price,
  never becomes active again, and never re-enters the active registry.
-/
import Jesse.Engine

namespace FrameLemmas
open Jesse Jesse.Eng Jesse.Gen Jesse.Acc

/-- `w'` extends `w`: old orders keep symbol and price, a non-active old order stays non-active, the
    registries gain no old id -/
structure WExt (w w' : World) : Prop where
  len : w.orders.length ≤ w'.orders.length
  same : ∀ id, id < w.orders.length →
    (w'.orders.getD id default).price = (w.orders.getD id default).price ∧
    (w'.orders.getD id default).sym = (w.orders.getD id default).sym
  noRevive : ∀ id, id < w.orders.length → (w'.orders.getD id default).status = .active →
    (w.orders.getD id default).status = .active
  registry : ∀ sym id, id < w.orders.length → id ∈ Acc.getD w'.active sym → id ∈ Acc.getD w.active sym
  final : ∀ id, id < w.orders.length → (w.orders.getD id default).status ≠ .active →
    (w'.orders.getD id default).status = (w.orders.getD id default).status

theorem WExt.refl (w : World) : WExt w w :=
  ⟨Nat.le_refl _, fun _ _ => ⟨rfl, rfl⟩, fun _ _ h => h, fun _ _ _ h => h, fun _ _ _ => rfl⟩

theorem WExt.trans {a b c : World} (h1 : WExt a b) (h2 : WExt b c) : WExt a c := by
  refine ⟨Nat.le_trans h1.len h2.len, ?_, ?_, ?_, ?_⟩
  · intro id hid
    have hb : id < b.orders.length := Nat.lt_of_lt_of_le hid h1.len
    exact ⟨(h2.same id hb).1.trans (h1.same id hid).1, (h2.same id hb).2.trans (h1.same id hid).2⟩
  · intro id hid h
    exact h1.noRevive id hid (h2.noRevive id (Nat.lt_of_lt_of_le hid h1.len) h)
  · intro sym id hid h
    exact h1.registry sym id hid (h2.registry sym id (Nat.lt_of_lt_of_le hid h1.len) h)
  · intro id hid hf
    have hb : id < b.orders.length := Nat.lt_of_lt_of_le hid h1.len
    have e1 := h1.final id hid hf
    exact (h2.final id hb (by rw [e1]; exact hf)).trans e1

/-- a world that differs from `w` in neither orders nor registries -/
theorem WExt.of_eq {w w' : World} (ho : w'.orders = w.orders) (ha : w'.active = w.active) : WExt w w' := by
  refine ⟨by rw [ho]; exact Nat.le_refl _, ?_, ?_, ?_, ?_⟩
  · intro id _; rw [ho]; exact ⟨rfl, rfl⟩
  · intro id _ h; rw [ho] at h; exact h
  · intro sym id _ h; rw [ha] at h; exact h
  · intro id _ _; rw [ho]

theorem getD_upd_status (os : List Order) (i id : Nat) (s : OrderStatus) :
    ((Acc.upd os i (fun o => { o with status := s })).getD id default).price = (os.getD id default).price ∧
    ((Acc.upd os i (fun o => { o with status := s })).getD id default).sym = (os.getD id default).sym ∧
    (Acc.upd os i (fun o => { o with status := s })).length = os.length ∧
    (s ≠ .active → ((Acc.upd os i (fun o => { o with status := s })).getD id default).status = .active →
      (os.getD id default).status = .active) := by
  induction os generalizing i id with
  | nil => simp [Acc.upd]
  | cons x xs ih =>
    cases i with
    | zero =>
      cases id with
      | zero => simp [Acc.upd]; intro h1 h2; exact absurd h2 h1
      | succ id => simp [Acc.upd]
    | succ i =>
      cases id with
      | zero => simp [Acc.upd]; exact (ih i 0).2.2.1
      | succ id =>
        simp only [Acc.upd, List.getD_cons_succ, List.length_cons]
        obtain ⟨a, b, c, d⟩ := ih i id
        exact ⟨a, b, by rw [c], d⟩

theorem getD_upd_other {α} [Inhabited α] (os : List α) (i id : Nat) (f : α → α) (h : i ≠ id) :
    (Acc.upd os i f).getD id default = os.getD id default := by
  induction os generalizing i id with
  | nil => simp [Acc.upd]
  | cons x xs ih =>
    cases i with
    | zero =>
      cases id with
      | zero => exact absurd rfl h
      | succ id => simp [Acc.upd]
    | succ i =>
      cases id with
      | zero => simp [Acc.upd]
      | succ id =>
        simp only [Acc.upd, List.getD_cons_succ]
        exact ih i id (by omega)

/-- the status of an ACTIVE order is set to a final one -/
theorem setStatus_ext (w : World) (id : Nat) (s : OrderStatus) (hs : s ≠ .active)
    (hact : (w.orders.getD id default).status = .active) : WExt w (setStatus w id s) := by
  unfold setStatus
  refine ⟨?_, ?_, ?_, ?_, ?_⟩
  · simp only []; rw [(getD_upd_status w.orders id 0 s).2.2.1]; exact Nat.le_refl _
  · intro k _; exact ⟨(getD_upd_status w.orders id k s).1, (getD_upd_status w.orders id k s).2.1⟩
  · intro k _ h; exact (getD_upd_status w.orders id k s).2.2.2 hs h
  · intro sym k _ h; exact h
  · intro k _ hf
    have hne : id ≠ k := by
      intro e; subst e; exact hf hact
    simp only []
    rw [getD_upd_other w.orders id k _ hne]

/-! ### world operations that touch neither the order table nor the registries -/

def Same (w w' : World) : Prop := w'.orders = w.orders ∧ w'.active = w.active

theorem Same.rfl' (w : World) : Same w w := ⟨rfl, rfl⟩
theorem Same.trans {a b c : World} (h1 : Same a b) (h2 : Same b c) : Same a c :=
  ⟨h2.1.trans h1.1, h2.2.trans h1.2⟩
theorem Same.ext {w w' : World} (h : Same w w') : WExt w w' := WExt.of_eq h.1 h.2

theorem same_addExecutedOrder (w : World) (o : Order) : Same w (addExecutedOrder w o) := ⟨rfl, rfl⟩
theorem same_openTrade (w : World) (s : Nat) : Same w (openTrade w s) := ⟨rfl, rfl⟩
theorem same_closeTrade (w : World) (s : Nat) : Same w (closeTrade w s) := by
  unfold closeTrade; dsimp only; split <;> exact ⟨rfl, rfl⟩
theorem same_chargeFee (w : World) (o : Order) : Same w (chargeFee w o) := by
  unfold chargeFee; split <;> exact ⟨rfl, rfl⟩

theorem same_mutClose (w : World) (s : Nat) (p : Rat) : Same w (mutClose w s p) := by
  unfold mutClose
  dsimp only
  refine Same.trans ?_ (same_closeTrade _ _)
  split <;> exact ⟨rfl, rfl⟩

theorem same_mutReduce (w : World) (s : Nat) (q p : Rat) : Same w (mutReduce w s q p) := by
  unfold mutReduce
  dsimp only
  split <;> (split <;> (try split) <;> exact ⟨rfl, rfl⟩)

theorem same_mutIncrease (w : World) (s : Nat) (q p : Rat) : Same w (mutIncrease w s q p) := by
  unfold mutIncrease
  dsimp only
  split <;> (try split) <;> exact ⟨rfl, rfl⟩

theorem same_mutOpen (w : World) (s : Nat) (q p : Rat) : Same w (mutOpen w s q p) := ⟨rfl, rfl⟩

theorem same_onExecutedCore (w : World) (o : Order) : Same w (onExecutedCore w o) := by
  unfold onExecutedCore
  split
  · exact same_mutOpen _ _ _ _
  · split
    · exact same_mutClose _ _ _
    · split
      · split
        · exact Same.rfl' _
        · exact same_mutIncrease _ _ _ _
      · split
        · split
          · split
            · exact same_mutClose _ _ _
            · exact Same.trans (same_mutClose _ _ _) (same_mutOpen _ _ _ _)
          · exact same_mutReduce _ _ _ _
        · exact Same.rfl' _

theorem same_releaseSell (w : World) (o : Order) : Same w (releaseSell w o) := by
  unfold releaseSell
  split
  · split
    · exact ⟨rfl, rfl⟩
    · split <;> exact ⟨rfl, rfl⟩
  · exact ⟨rfl, rfl⟩

theorem same_exchangeOnExecution (w : World) (o : Order) : Same w (exchangeOnExecution w o) := by
  unfold exchangeOnExecution
  split
  · split
    · exact ⟨rfl, rfl⟩
    · split <;> exact ⟨rfl, rfl⟩
  · split
    · exact ⟨(same_releaseSell w o).1, (same_releaseSell w o).2⟩
    · exact ⟨(same_releaseSell w o).1, (same_releaseSell w o).2⟩

theorem execute_ext (w : World) (id : Nat) : WExt w (execute w id) := by
  unfold execute
  split
  · exact WExt.refl _
  · split
    · exact WExt.refl _
    · rename_i o ho hst
      have hact : (w.orders.getD id default).status = .active := by
        rw [List.getD_eq_getElem?_getD, ho]; simpa using hst
      refine WExt.trans (setStatus_ext w id .executed (by decide) hact) (Same.ext ?_)
      unfold onExecuted
      exact Same.trans (Same.trans (Same.trans (same_addExecutedOrder _ _) (same_exchangeOnExecution _ _)) (same_chargeFee _ _))
        (same_onExecutedCore _ _)

theorem cancel_ext (w : World) (id : Nat) : WExt w (cancel w id) := by
  unfold cancel
  split
  · exact WExt.refl _
  · split
    · exact WExt.refl _
    · rename_i o ho hst
      have hact : (w.orders.getD id default).status = .active := by
        rw [List.getD_eq_getElem?_getD, ho]; simpa using hst
      refine WExt.trans (setStatus_ext w id .canceled (by decide) hact) (Same.ext ?_)
      dsimp only
      split
      · split
        · exact Same.rfl' _
        · split <;> exact ⟨rfl, rfl⟩
      · split
        · exact ⟨(same_releaseSell _ _).1, (same_releaseSell _ _).2⟩
        · exact same_releaseSell _ _

theorem setPrice_ext (w : World) (s : Nat) (p : Rat) : WExt w (setPrice w s p) := Same.ext ⟨rfl, rfl⟩

/-! ### submission -/

theorem submit_ok_fields {w w' : World} {sym : Nat} {side : Side} {type : OrderType} {q p : Rat} {ro : Bool}
    (h : submit w sym side type q p ro = .ok w') :
    w'.orders.take w.orders.length = w.orders ∧ w'.orders.length = w.orders.length + 1
    ∧ w'.active = Acc.upd w.active sym (· ++ [w.orders.length]) := by
  unfold submit at h
  dsimp only at h
  repeat' (split at h)
  all_goals (cases h)
  all_goals (refine ⟨?_, ?_, ?_⟩)
  all_goals (first | (simp; done) | rfl | (split <;> (first | (simp; done) | rfl)) | (split <;> (try split) <;> (try split) <;> (first | (simp; done) | rfl)))

theorem submit_err_fields {w w' : World} {k : Err} {sym : Nat} {side : Side} {type : OrderType} {q p : Rat} {ro : Bool}
    (h : submit w sym side type q p ro = .error (k, w')) : w'.orders = w.orders ∧ w'.active = w.active := by
  unfold submit at h
  dsimp only at h
  repeat' (split at h)
  all_goals (cases h)
  all_goals (constructor)
  all_goals (first | rfl | (simp; done) | (split <;> (first | rfl | (simp; done))) | (split <;> (try split) <;> (try split) <;> (first | rfl | (simp; done))))

theorem mem_getD_upd_append (l : List (List Nat)) (i j x id : Nat) (h : id ∈ Acc.getD (Acc.upd l i (· ++ [x])) j) :
    id ∈ Acc.getD l j ∨ id = x := by
  induction l generalizing i j with
  | nil => simp [Acc.upd] at h; left; exact h
  | cons y ys ih =>
    cases i with
    | zero =>
      cases j with
      | zero => simp [Acc.upd, Acc.getD] at h ⊢; exact h
      | succ j => simp [Acc.upd, Acc.getD] at h ⊢; left; exact h
    | succ i =>
      cases j with
      | zero => simp [Acc.upd, Acc.getD] at h ⊢; left; exact h
      | succ j => simp only [Acc.upd, Acc.getD] at h ⊢; exact ih i j h

theorem getD_of_take {α} [Inhabited α] (l l' : List α) (h : l'.take l.length = l) (id : Nat) (hid : id < l.length) :
    l'.getD id default = l.getD id default := by
  rw [List.getD_eq_getElem?_getD, List.getD_eq_getElem?_getD]
  have : l[id]? = (l'.take l.length)[id]? := by rw [h]
  rw [this, List.getElem?_take]
  simp [hid]

theorem submit_ok_ext {w w' : World} {sym : Nat} {side : Side} {type : OrderType} {q p : Rat} {ro : Bool}
    (h : submit w sym side type q p ro = .ok w') : WExt w w' := by
  obtain ⟨ht, hl, ha⟩ := submit_ok_fields h
  refine ⟨by omega, ?_, ?_, ?_, ?_⟩
  · intro id hid
    rw [getD_of_take w.orders w'.orders ht id hid]
    exact ⟨rfl, rfl⟩
  · intro id hid hst
    rw [getD_of_take w.orders w'.orders ht id hid] at hst
    exact hst
  · intro s id hid hm
    rw [ha] at hm
    rcases mem_getD_upd_append _ _ _ _ _ hm with hm | hm
    · exact hm
    · omega
  · intro id hid _
    rw [getD_of_take w.orders w'.orders ht id hid]

theorem submit_err_ext {w w' : World} {k : Err} {sym : Nat} {side : Side} {type : OrderType} {q p : Rat} {ro : Bool}
    (h : submit w sym side type q p ro = .error (k, w')) : WExt w w' :=
  WExt.of_eq (submit_err_fields h).1 (submit_err_fields h).2

/-- clearing or filtering a registry -/
theorem registry_shrink_ext (w : World) (act : List (List Nat))
    (h : ∀ sym id, id ∈ Acc.getD act sym → id ∈ Acc.getD w.active sym) : WExt w { w with active := act } :=
  ⟨Nat.le_refl _, fun _ _ => ⟨rfl, rfl⟩, fun _ _ hh => hh, fun sym id _ hm => h sym id hm, fun _ _ _ => rfl⟩

theorem mem_getD_upd_sub (l : List (List Nat)) (i j id : Nat) (f : List Nat → List Nat) (hf : ∀ x, ∀ z ∈ f x, z ∈ x)
    (h : id ∈ Acc.getD (Acc.upd l i f) j) : id ∈ Acc.getD l j := by
  induction l generalizing i j with
  | nil => simp [Acc.upd] at h; exact h
  | cons y ys ih =>
    cases i with
    | zero =>
      cases j with
      | zero => simp only [Acc.upd, Acc.getD] at h ⊢; exact hf y id h
      | succ j => simp only [Acc.upd, Acc.getD] at h ⊢; exact h
    | succ i =>
      cases j with
      | zero => simp only [Acc.upd, Acc.getD] at h ⊢; exact h
      | succ j => simp only [Acc.upd, Acc.getD] at h ⊢; exact ih i j h

theorem updateActive_ext (w : World) (sym : Nat) : WExt w (updateActive w sym) := by
  unfold updateActive
  exact registry_shrink_ext w _ (fun s id hm => mem_getD_upd_sub _ _ _ _ _ (fun x z hz => (List.mem_filter.mp hz).1) hm)

/-! ### the engine: every step of the strategy layer extends the world -/

variable {M : Type}

def EExt (e e' : Engine M) : Prop := WExt e.w e'.w

theorem EExt.refl (e : Engine M) : EExt e e := WExt.refl _
theorem EExt.trans {a b c : Engine M} (h1 : EExt a b) (h2 : EExt b c) : EExt a c := WExt.trans h1 h2
theorem EExt.of_w {e e' : Engine M} (h : e'.w = e.w) : EExt e e' := by unfold EExt; rw [h]; exact WExt.refl _

theorem logE_ext (e : Engine M) (ev : Event) : EExt e (logE e ev) := EExt.of_w rfl
theorem fail_ext (e : Engine M) (k : Err) : EExt e (fail e k) := by
  unfold fail; split <;> exact EExt.of_w rfl
theorem setStrat_ext (e : Engine M) (r : Nat) (f : StratState M → StratState M) : EExt e (setStrat e r f) := EExt.of_w rfl

theorem foldl_ext {α} (g : Engine M → α → Engine M) (hg : ∀ e x, EExt e (g e x)) (l : List α) (e : Engine M) :
    EExt e (l.foldl g e) := by
  induction l generalizing e with
  | nil => exact EExt.refl _
  | cons x xs ih => exact EExt.trans (hg e x) (ih (g e x))

theorem createOrder_ext (e : Engine M) (sym : Nat) (a : ApiCall) (via : Option Via) : EExt e (createOrder e sym a via) := by
  unfold createOrder
  split
  · exact EExt.refl _
  · split
    · rename_i k w' h
      exact EExt.trans (show EExt e { e with w := w' } from submit_err_ext h) (fail_ext _ _)
    · rename_i w' h
      exact EExt.trans (show EExt e { e with w := w', via := e.via ++ [via], storage := upd e.storage sym (· ++ [e.w.orders.length]),
                                             toExecute := if a.type = .market then e.toExecute ++ [e.w.orders.length] else e.toExecute }
                        from submit_ok_ext h) (logE_ext _ _)

theorem brokerSubmit_ext (e : Engine M) (sym : Nat) (r : Except Err ApiCall) (via : Option Via) :
    EExt e (brokerSubmit e sym r via) := by
  unfold brokerSubmit
  split
  · exact EExt.refl _
  · split
    · exact fail_ext _ _
    · exact createOrder_ext _ _ _ _

theorem cancelOrder_ext (e : Engine M) (id : Nat) : EExt e (cancelOrder e id) := by
  unfold cancelOrder
  split
  · exact EExt.trans (show EExt e { e with w := Acc.cancel e.w id } from cancel_ext _ _) (logE_ext _ _)
  · exact EExt.refl _

section strategy
variable [Inhabited M] (u : UserStrategy M)

theorem submitEntries_ext (e : Engine M) (r : Nat) (buy : Bool) (rows : Rows) : EExt e (submitEntries e r buy rows) := by
  unfold submitEntries
  apply foldl_ext
  intro e' row
  dsimp only
  split
  · exact EExt.refl _
  · exact brokerSubmit_ext _ _ _ _

theorem resubmitExits_ext (e : Engine M) (r : Nat) (isStop : Bool) (rows : Rows) : EExt e (resubmitExits e r isStop rows) := by
  unfold resubmitExits
  dsimp only
  refine EExt.trans (foldl_ext _ ?_ _ _) (foldl_ext _ ?_ _ _)
  · intro e' id
    repeat' split
    all_goals first | exact cancelOrder_ext _ _ | exact EExt.refl _
  · intro e' row
    split
    · exact EExt.refl _
    · split
      · exact EExt.refl _
      · exact brokerSubmit_ext _ _ _ _

theorem runHook_ext (e : Engine M) (r : Nat) (name : String) (h : M → Decl → M × Decl) : EExt e (runHook e r name h) := by
  unfold runHook
  split
  · exact EExt.refl _
  · exact EExt.trans (setStrat_ext _ _ _) (logE_ext _ _)

theorem mem_getD_upd_const_nil (l : List (List Nat)) (i j id : Nat) (h : id ∈ Acc.getD (Acc.upd l i (fun _ => [])) j) :
    id ∈ Acc.getD l j :=
  mem_getD_upd_sub l i j id (fun _ => []) (fun _ z hz => by cases hz) h

theorem resetStrategy_ext (e : Engine M) (r : Nat) : EExt e (resetStrategy e r) := by
  unfold resetStrategy
  dsimp only
  show WExt e.w { (setStrat e r _).w with active := _ }
  exact registry_shrink_ext e.w _ (fun s id hm => mem_getD_upd_const_nil _ _ _ _ hm)

end strategy

section strategy2
variable [Inhabited M] (u : UserStrategy M)

theorem dmEntries_ext (e : Engine M) (r : Nat) : EExt e (dmEntries e r) := by
  unfold dmEntries
  dsimp only
  have key : ∀ (b : Bool) (rows : Rows) (f : StratState M → StratState M),
      EExt e (submitEntries ((entryOrders (setStrat e r f) (routeOf e r).sym).foldl (fun e id => cancelOrder e id) (setStrat e r f)) r b rows) :=
    fun b rows f => EExt.trans (EExt.trans (setStrat_ext e r f) (foldl_ext _ (fun e' id => cancelOrder_ext e' id) _ _))
      (submitEntries_ext _ _ _ _)
  split
  · split
    · exact fail_ext _ _
    · split
      · exact key _ _ _
      · exact setStrat_ext _ _ _
  · split
    · exact fail_ext _ _
    · split
      · exact key _ _ _
      · exact setStrat_ext _ _ _

theorem dmStop_ext (e : Engine M) (r : Nat) : EExt e (dmStop e r) := by
  unfold dmStop
  dsimp only
  split
  · split
    · exact fail_ext _ _
    · split
      · exact EExt.trans (setStrat_ext _ _ _) (resubmitExits_ext _ _ _ _)
      · exact EExt.refl _
  · exact EExt.refl _

theorem dmTake_ext (e : Engine M) (r : Nat) : EExt e (dmTake e r) := by
  unfold dmTake
  dsimp only
  split
  · split
    · exact fail_ext _ _
    · split
      · exact EExt.trans (setStrat_ext _ _ _) (resubmitExits_ext _ _ _ _)
      · exact EExt.refl _
  · exact EExt.refl _

theorem detectModifications_ext (e : Engine M) (r : Nat) : EExt e (detectModifications e r) := by
  unfold detectModifications
  dsimp only
  have h1 := dmEntries_ext e r
  have h2 := EExt.trans h1 (dmStop_ext (dmEntries e r) r)
  have h3 := EExt.trans h2 (dmTake_ext (dmStop (dmEntries e r) r) r)
  split
  · exact EExt.refl _
  · split
    · exact EExt.refl _
    · split
      · exact h1
      · split
        · exact h2
        · split
          · exact h3
          · split
            · exact EExt.trans h3 (fail_ext _ _)
            · exact h3

theorem broadcast_ext (e : Engine M) (r : Nat) : EExt e (broadcast e r) := by
  unfold broadcast
  apply foldl_ext
  intro e' r'
  split
  · exact EExt.refl _
  · exact detectModifications_ext _ _

/-- right-composition forms (the goal's shape drives the unification) -/
theorem ext_then {a b : Engine M} (f : Engine M → Engine M) (hf : ∀ x, EExt x (f x)) (h : EExt a b) : EExt a (f b) :=
  EExt.trans h (hf b)
theorem ext_same_w {a b c : Engine M} (hw : c.w = b.w) (h : EExt a b) : EExt a c := by
  unfold EExt at *; rw [hw]; exact h

theorem executeCancel_ext (e : Engine M) (r : Nat) : EExt e (executeCancel e r) := by
  unfold executeCancel
  dsimp only
  split
  · exact EExt.refl _
  · split
    · exact fail_ext _ _
    · apply ext_then (fun x => logE x _) (fun x => logE_ext x _)
      apply ext_then (fun x => broadcast x r) (fun x => broadcast_ext x r)
      apply ext_then (fun x => resetStrategy x r) (fun x => resetStrategy_ext x r)
      apply ext_same_w (b := (Acc.getD e.w.active (routeOf e r).sym).foldl (fun e id => cancelOrder e id) e) rfl
      exact foldl_ext _ (fun e' id => cancelOrder_ext e' id) _ _

theorem openExitRows_ext (e : Engine M) (r : Nat) (rows : Rows) (isStop : Bool) : EExt e (openExitRows e r rows isStop) := by
  unfold openExitRows
  dsimp only
  apply foldl_ext
  intro e' row
  repeat' split
  all_goals first | exact EExt.refl _ | exact brokerSubmit_ext _ _ _ _

theorem ext_ite {a : Engine M} {c : Prop} [Decidable c] {x y : Engine M} (hx : EExt a x) (hy : EExt a y) :
    EExt a (if c then x else y) := by
  split
  · exact hx
  · exact hy

theorem onOpenPosition_ext (e : Engine M) (r oid : Nat) : EExt e (onOpenPosition u e r oid) := by
  unfold onOpenPosition
  dsimp only
  split
  · exact EExt.refl _
  · apply ext_then (fun x => detectModifications x r) (fun x => detectModifications_ext x r)
    have h0 : EExt e (broadcast (setStrat e r (fun s => { s with increased := 1 })) r) :=
      EExt.trans (setStrat_ext _ _ _) (broadcast_ext _ _)
    generalize broadcast (setStrat e r (fun s => { s with increased := 1 })) r = e0 at *
    have h1 : EExt e (if (stratOf e0 r).decl.stopLoss.isSome then openExitRows e0 r (fmt (stratOf e0 r).shadow.stopLoss) true else e0) :=
      ext_ite (EExt.trans h0 (openExitRows_ext _ _ _ _)) h0
    generalize (if (stratOf e0 r).decl.stopLoss.isSome then openExitRows e0 r (fmt (stratOf e0 r).shadow.stopLoss) true else e0) = e1 at *
    have h2 : EExt e (if (stratOf e0 r).decl.takeProfit.isSome then openExitRows e1 r (fmt (stratOf e0 r).shadow.takeProfit) false else e1) :=
      ext_ite (EExt.trans h1 (openExitRows_ext _ _ _ _)) h1
    exact EExt.trans h2 (runHook_ext _ _ _ _)

theorem onClosePosition_ext (e : Engine M) (r oid : Nat) : EExt e (onClosePosition u e r oid) := by
  unfold onClosePosition
  dsimp only
  split
  · exact EExt.refl _
  · exact EExt.trans (EExt.trans (EExt.trans (broadcast_ext _ _) (executeCancel_ext _ _)) (runHook_ext _ _ _ _))
      (detectModifications_ext _ _)

theorem onIncreasedPosition_ext (e : Engine M) (r oid : Nat) : EExt e (onIncreasedPosition u e r oid) := by
  unfold onIncreasedPosition
  dsimp only
  split
  · exact EExt.refl _
  · exact EExt.trans (EExt.trans (EExt.trans (setStrat_ext _ _ _) (broadcast_ext _ _)) (runHook_ext _ _ _ _))
      (detectModifications_ext _ _)

theorem onReducedPosition_ext (e : Engine M) (r oid : Nat) : EExt e (onReducedPosition u e r oid) := by
  unfold onReducedPosition
  dsimp only
  split
  · exact EExt.refl _
  · exact EExt.trans (EExt.trans (EExt.trans (setStrat_ext _ _ _) (broadcast_ext _ _)) (runHook_ext _ _ _ _))
      (detectModifications_ext _ _)

theorem onUpdatedPosition_ext (e : Engine M) (r oid : Nat) : EExt e (onUpdatedPosition u e r oid) := by
  unfold onUpdatedPosition
  dsimp only
  split
  · exact EExt.refl _
  · split
    · exact onOpenPosition_ext u _ _ _
    · split
      · exact onClosePosition_ext u _ _ _
      · split
        · exact onIncreasedPosition_ext u _ _ _
        · exact onReducedPosition_ext u _ _ _

theorem afterFill_ext (e1 : Engine M) (sym n id : Nat) : EExt e1 (afterFill u e1 sym n id) := by
  unfold afterFill
  dsimp only
  split
  · exact EExt.refl _
  · exact EExt.trans (ext_ite (setStrat_ext _ _ _) (EExt.refl _)) (onUpdatedPosition_ext u _ _ _)

theorem executeOrder_ext (e : Engine M) (id : Nat) : EExt e (executeOrder u e id) := by
  unfold executeOrder
  dsimp only
  have h1 : EExt e (logE { e with w := Acc.execute e.w id } (Event.fill id e.time (orderOf e id).price (orderOf e id).qty)) :=
    EExt.trans (show EExt e { e with w := Acc.execute e.w id } from execute_ext _ _) (logE_ext _ _)
  have h4 := EExt.trans h1 (afterFill_ext u _ (orderOf e id).sym e.w.trades.length id)
  split
  · exact EExt.refl _
  · split
    · exact EExt.refl _
    · split
      · exact h4
      · exact EExt.trans h4 (logE_ext _ _)

end strategy2

end FrameLemmas
