/-
  Proofs/Lemmas/Compose.lean — C02: the matching loop of a minute never leaves an order that was resting at
  the start of the minute with its price inside the minute's range (frame facts + path order + loop return).
-/
import Proofs.Lemmas.Frame
import Proofs.Lemmas.Match

namespace ComposeLemmas
open Jesse Jesse.Eng Jesse.Gen Jesse.Acc FrameLemmas MatchLemmas

variable {M : Type} [Inhabited M] (u : UserStrategy M)

/-- the candidate selection of the normal simulator -/
def sel (sym : Nat) : Engine M → Candle → List Nat := fun e c =>
  let os := executingOrders e sym c
  if os.length > 1 then sortExecutionOrders e os [c] else os

theorem updatePartialCandle_w (e : Engine M) (sym : Nat) (c : Candle) : EExt e (updatePartialCandle e sym c) := by
  unfold updatePartialCandle
  refine EExt.trans (EExt.of_w rfl : EExt e (addCandle e sym 1 c)) ?_
  apply foldl_ext
  intro e' tf
  dsimp only
  split
  · exact EExt.of_w rfl
  · exact fail_ext _ _

theorem price_of_ext {e0 e : Engine M} (h : EExt e0 e) (id : Nat) (hid : id < e0.w.orders.length) :
    (orderOf e id).price = (orderOf e0 id).price := (h.same id hid).1

theorem sort_single_sub (e : Engine M) (os : List Nat) (c : Candle) (id : Nat)
    (hall : ∀ z ∈ os, candleIncludesPrice c (orderOf e z).price) (h : id ∈ sortExecutionOrders e os [c]) : id ∈ os := by
  rw [sort_single_eq e os c hall] at h
  by_cases h1 : os.length = 1
  · rw [if_pos h1] at h; exact h
  · rw [if_neg h1] at h
    by_cases h2 : os.length > 1
    · rw [if_pos h2] at h
      by_cases hr : c.o > c.c
      · rw [if_pos hr] at h
        simp only [List.mem_append, SortLemmas.mem_sortedBy, List.mem_filter] at h
        rcases h with (h | h) | h <;> exact h.1
      · rw [if_neg hr] at h
        simp only [List.mem_append, SortLemmas.mem_sortedBy, List.mem_filter] at h
        rcases h with (h | h) | h <;> exact h.1
    · rw [if_neg h2] at h; cases h

/-- all members of the selection are active candidates of the candle -/
theorem sel_members (sym : Nat) (e : Engine M) (c : Candle) (id : Nat) (h : id ∈ sel sym e c) :
    id ∈ executingOrders e sym c := by
  unfold sel at h
  simp only [] at h
  by_cases hl : (executingOrders e sym c).length > 1
  · rw [if_pos hl] at h
    exact sort_single_sub e _ c id (fun z hz => ((mem_executingOrders e sym c z).mp hz).2.2) h
  · rw [if_neg hl] at h; exact h

theorem firstHit_head (e : Engine M) (c : Candle) (l : List Nat)
    (hall : ∀ x ∈ l, (orderOf e x).status = .active ∧ candleIncludesPrice c (orderOf e x).price) :
    matchLoop.firstHit e c l = l.head? := by
  cases l with
  | nil => rfl
  | cons x xs =>
    obtain ⟨h1, h2⟩ := hall x (by simp)
    unfold matchLoop.firstHit
    simp [h1, h2]

/-- the loop invariant: an order of the start state `e0` that is still active and registered and whose price
    lies in the minute's candle `real` has its price in what remains (`cur`) of it -/
def Keep (e0 : Engine M) (sym : Nat) (real : Candle) (e : Engine M) (cur : Candle) : Prop :=
  ∀ id, id < e0.w.orders.length → (orderOf e id).status = .active → id ∈ Acc.getD e.w.active sym →
    candleIncludesPrice real (orderOf e0 id).price → candleIncludesPrice cur (orderOf e0 id).price

theorem loop_keeps (e0 : Engine M) (sym : Nat) (real : Candle) (fuel : Nat) :
    ∀ (e : Engine M) (cur : Candle), cur.Valid → EExt e0 e → Keep e0 sym real e cur →
      (matchLoop u fuel e sym cur (sel sym e cur) (sel sym) false).1.err = none →
      EExt e0 (matchLoop u fuel e sym cur (sel sym e cur) (sel sym) false).1
      ∧ Keep e0 sym real (matchLoop u fuel e sym cur (sel sym e cur) (sel sym) false).1
          (matchLoop u fuel e sym cur (sel sym e cur) (sel sym) false).2 := by
  induction fuel with
  | zero =>
    intro e cur _ _ _ herr
    unfold matchLoop at herr
    exact absurd herr (fail_err e _)
  | succ f ih =>
    intro e cur hv hext hkeep herr
    unfold matchLoop at herr ⊢
    by_cases he : e.err.isSome
    · simp only [he, if_true] at herr
      simp [herr] at he
    · simp only [he] at herr ⊢
      simp only [Bool.false_eq_true, if_false] at herr ⊢
      have hmem : ∀ x ∈ sel sym e cur, (orderOf e x).status = .active ∧ candleIncludesPrice cur (orderOf e x).price :=
        fun x hx => ((mem_executingOrders e sym cur x).mp (sel_members sym e cur x hx)).2
      rw [firstHit_head e cur _ hmem] at herr ⊢
      cases hsel : sel sym e cur with
      | nil =>
        simp only [hsel, List.head?_nil] at herr ⊢
        exact ⟨hext, hkeep⟩
      | cons id0 rest =>
        simp only [hsel, List.head?_cons] at herr ⊢
        have hid0 := hmem id0 (by rw [hsel]; simp)
        cases hs : splitCandle cur (orderOf e id0).price with
        | none =>
          simp only [hs] at herr
          exact absurd herr (fail_err e _)
        | some ab =>
          obtain ⟨a, b⟩ := ab
          simp only [hs] at herr ⊢
          -- the state handed to the order's execution differs from `e` in candles, current price only
          have h3 : EExt e (setCurrentPrice (updatePartialCandle e sym a) sym a.c) :=
            EExt.trans (updatePartialCandle_w e sym a) (show EExt _ (setCurrentPrice _ sym a.c) from setPrice_ext _ _ _)
          have h4 : EExt e (executeOrder u (setCurrentPrice (updatePartialCandle e sym a) sym a.c) id0) :=
            EExt.trans h3 (executeOrder_ext u _ _)
          -- validity of the remaining part
          obtain ⟨a', b', hs', hok⟩ := C08.split_valid cur (orderOf e id0).price hv hid0.2.1 hid0.2.2
          rw [hs] at hs'
          simp only [Option.some.injEq, Prod.mk.injEq] at hs'
          obtain ⟨rfl, rfl⟩ := hs'
          refine ih _ b hok.validB (EExt.trans hext h4) ?_ herr
          -- the invariant for the remaining part
          intro id hid hact hreg hreal
          have hid' : id < e.w.orders.length := Nat.lt_of_lt_of_le hid hext.len
          have hact_e : (orderOf e id).status = .active := h4.noRevive id hid' hact
          have hreg_e : id ∈ Acc.getD e.w.active sym := h4.registry sym id hid' hreg
          have hcur := hkeep id hid hact_e hreg_e hreal
          have hp : (orderOf e id).price = (orderOf e0 id).price := price_of_ext hext id hid
          have hin : id ∈ executingOrders e sym cur :=
            (mem_executingOrders e sym cur id).mpr ⟨hreg_e, hact_e, by rw [hp]; exact hcur⟩
          rw [← hp]
          by_cases hl : (executingOrders e sym cur).length > 1
          · have hsort : sortExecutionOrders e (executingOrders e sym cur) [cur] = id0 :: rest := by
              have := hsel; unfold sel at this; simp only [hl, if_true] at this; exact this
            exact head_first_on_path e _ cur a b id0 rest hv
              (fun z hz => ((mem_executingOrders e sym cur z).mp hz).2.2) hsort hs id hin
          · have hos : executingOrders e sym cur = id0 :: rest := by
              have := hsel; unfold sel at this; simp only [hl, if_false] at this; exact this
            have hrest : rest = [] := by
              rw [hos] at hl; simpa using hl
            rw [hos, hrest] at hin
            simp at hin
            subst hin
            -- the split meets at the order's own price (or is the whole candle at the open)
            by_cases ho : (orderOf e id).price = cur.o
            · rw [ho, C08.split_at_open] at hs
              simp only [Option.some.injEq, Prod.mk.injEq] at hs
              rw [← hs.2, ho]
              exact ⟨hv.1, hv.2.1⟩
            · have hm := (hok.meet ho).2
              have vb := hok.validB
              rw [← hm]
              exact ⟨vb.1, vb.2.1⟩

end ComposeLemmas
