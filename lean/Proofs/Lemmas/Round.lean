/-
  Proofs/Lemmas/Round.lean — CPython's round-half-even (`Jesse.roundHalfEven`).
-/
import Proofs.Lemmas.Num

namespace Jesse

theorem floor_le' (x : Rat) : ((Rat.floor x : Int) : Rat) ≤ x := Rat.floor_le x
theorem lt_floor_add_one' (x : Rat) : x < ((Rat.floor x : Int) : Rat) + 1 := by
  have h := Rat.lt_floor_add_one x
  push_cast at h; exact h

theorem floor_mono {x y : Rat} (h : x ≤ y) : Rat.floor x ≤ Rat.floor y := by
  rw [Rat.le_floor_iff]
  exact le_trans (floor_le' x) h

theorem floor_intCast (n : Int) : Rat.floor (n : Rat) = n := by
  apply le_antisymm
  · have h := floor_le' (n : Rat)
    exact_mod_cast h
  · rw [Rat.le_floor_iff]

/-- the rounded value is the floor or the floor plus one -/
theorem roundHalfEven_cases (x : Rat) :
    (roundHalfEven x = Rat.floor x ∧ x - (Rat.floor x : Rat) ≤ 1 / 2) ∨
    (roundHalfEven x = Rat.floor x + 1 ∧ 1 / 2 ≤ x - (Rat.floor x : Rat)) := by
  unfold roundHalfEven
  simp only []
  by_cases h1 : x - (Rat.floor x : Rat) < 1 / 2
  · left; rw [if_pos h1]; exact ⟨rfl, le_of_lt h1⟩
  · rw [if_neg h1]
    by_cases h2 : 1 / 2 < x - (Rat.floor x : Rat)
    · right; rw [if_pos h2]; exact ⟨rfl, le_of_lt h2⟩
    · rw [if_neg h2]
      have e : x - (Rat.floor x : Rat) = 1 / 2 := le_antisymm (not_lt.mp h2) (not_lt.mp h1)
      by_cases h3 : Rat.floor x % 2 = 0
      · left; rw [if_pos h3]; exact ⟨rfl, le_of_eq e⟩
      · right; rw [if_neg h3]; exact ⟨rfl, le_of_eq e.symm⟩

theorem roundHalfEven_intCast (n : Int) : roundHalfEven (n : Rat) = n := by
  unfold roundHalfEven
  simp only [floor_intCast, sub_self]
  norm_num

theorem roundHalfEven_mono {x y : Rat} (h : x ≤ y) : roundHalfEven x ≤ roundHalfEven y := by
  have hf := floor_mono h
  rcases lt_or_eq_of_le hf with hlt | heq
  · -- different floors
    rcases roundHalfEven_cases x with ⟨hx, _⟩ | ⟨hx, _⟩ <;>
    rcases roundHalfEven_cases y with ⟨hy, _⟩ | ⟨hy, _⟩ <;> omega
  · -- same floor: compare the fractional parts
    unfold roundHalfEven
    simp only []
    rw [← heq]
    have hd : x - (Rat.floor x : Rat) ≤ y - (Rat.floor x : Rat) := by linarith
    by_cases a1 : x - (Rat.floor x : Rat) < 1 / 2
    · simp only [a1, if_true]
      split
      · exact le_refl _
      · split
        · omega
        · split <;> omega
    · have a1' : ¬ y - (Rat.floor x : Rat) < 1 / 2 := by intro hh; apply a1; linarith
      simp only [a1, a1', if_false]
      by_cases a2 : 1 / 2 < x - (Rat.floor x : Rat)
      · have a2' : 1 / 2 < y - (Rat.floor x : Rat) := by linarith
        rw [if_pos a2, if_pos a2']
      · simp only [a2, if_false]
        by_cases b2 : 1 / 2 < y - (Rat.floor x : Rat)
        · simp only [b2, if_true]; split <;> omega
        · rw [if_neg b2]

theorem roundHalfEven_between {x : Rat} {a b : Int} (ha : (a : Rat) ≤ x) (hb : x ≤ (b : Rat)) :
    a ≤ roundHalfEven x ∧ roundHalfEven x ≤ b := by
  have h1 := roundHalfEven_mono ha
  have h2 := roundHalfEven_mono hb
  rw [roundHalfEven_intCast] at h1 h2
  exact ⟨h1, h2⟩

end Jesse
