/-
  Proofs/C07.lean — every timeframe is the exact aggregation of the one-minute candles.
  `generate_candle_from_one_minutes` and `_get_fixed_jumped_candle` are GENERATED from the source;
  the store functions are the hand model of Jesse/Store.lean (tied by correspondence).
  PROPERTY THEOREMS ONLY (helpers in Proofs/Lemmas/Aggregate.lean).
-/
import Jesse.Gen.Sim
import Proofs.Lemmas.Aggregate
import Proofs.Lemmas.Num
import Proofs.Lemmas.StoreProto
import Proofs.Lemmas.StoreFrame

namespace C07
open Jesse Jesse.Gen Jesse.Store Spec AggLemmas

/-- Full functional specification of `generate_candle_from_one_minutes` (forming candles accepted):
    the aggregation of the given 1m candles — window-start timestamp, first open, last close,
    maximum high, minimum low, summed volume; an empty input is rejected. -/
theorem generate_is_aggregate (m : Nat) (cs : List Candle) :
    generate m cs = match aggregate cs with
      | some a => .ok a
      | none => .error .ValueError := by
  cases cs with
  | nil => simp [generate, generateCandle, lenR, aggregate]
  | cons c0 rest =>
    have hlen : ¬ (lenR (c0 :: rest) = 0) := by
      unfold lenR
      have : (0 : Rat) < (((c0 :: rest).length : Nat) : Rat) := by
        exact_mod_cast (by simp : 0 < (c0 :: rest).length)
      exact ne_of_gt this
    simp only [generate, generateCandle, hlen, if_false, not_true_eq_false, false_and, aggregate]
    congr 1
    simp only [firstRow, lastRow, Jesse.Gen.colMax, Jesse.Gen.colMin, Jesse.Gen.colSum, Py.colMax, Py.colMin,
      Py.colSum, List.map_cons, Option.getD_some, foldl_max_eq, foldl_min_eq, foldl_add_eq]
    have hl : (c0 :: rest).getLast? = some ((c0 :: rest).getLast?.getD c0) := by
      cases h : (c0 :: rest).getLast? with
      | none => simp at h
      | some x => rfl
    rw [hl]
    simp [sumOf]

/-- With `accept_forming_candles = False` exactly `timeframe` minutes are required. -/
theorem generate_complete_requires_full_window (m : Nat) (cs : List Candle) (h : cs.length ≠ m) :
    generateCandle m cs False = .error .ValueError := by
  unfold generateCandle
  split
  · rfl
  · have : lenR cs ≠ natR m := by
      unfold lenR natR
      intro hh; apply h; exact_mod_cast hh
    simp [this]

/-- the aggregated high is the maximum of the highs, the low the minimum of the lows -/
theorem aggregate_extrema (cs : List Candle) (a : Candle) (h : aggregate cs = some a) :
    (∀ c ∈ cs, c.h ≤ a.h) ∧ (∃ c ∈ cs, c.h = a.h) ∧ (∀ c ∈ cs, a.l ≤ c.l) ∧ (∃ c ∈ cs, c.l = a.l) := by
  cases cs with
  | nil => cases h
  | cons c0 rest =>
    simp only [aggregate, Option.some.injEq] at h
    subst h
    refine ⟨?_, ?_, ?_, ?_⟩
    · intro c hc
      rcases List.mem_cons.mp hc with h1 | h1
      · subst h1; exact maxOf_ge_acc _ _
      · exact maxOf_ge_mem _ _ _ (List.mem_map_of_mem h1)
    · rcases maxOf_mem (rest.map (·.h)) c0.h with h1 | h1
      · exact ⟨c0, List.mem_cons_self, h1.symm⟩
      · obtain ⟨c, hc, hch⟩ := List.mem_map.mp h1
        exact ⟨c, List.mem_cons_of_mem _ hc, hch⟩
    · intro c hc
      rcases List.mem_cons.mp hc with h1 | h1
      · subst h1; exact minOf_le_acc _ _
      · exact minOf_le_mem _ _ _ (List.mem_map_of_mem h1)
    · rcases minOf_mem (rest.map (·.l)) c0.l with h1 | h1
      · exact ⟨c0, List.mem_cons_self, h1.symm⟩
      · obtain ⟨c, hc, hch⟩ := List.mem_map.mp h1
        exact ⟨c, List.mem_cons_of_mem _ hc, hch⟩

/-- The normalisation of a gapping open (`_get_fixed_jumped_candle`): the stored 1m candle equals
    the input except that the open is moved to the previous close and the low (resp. high) is
    extended to contain it; timestamp, close and volume are never touched; no gap ⇒ unchanged;
    a valid candle stays valid. -/
theorem fix_jump_spec (prev c : Candle) :
    (fixJump prev c).ts = c.ts ∧ (fixJump prev c).c = c.c ∧ (fixJump prev c).v = c.v ∧
    (fixJump prev c).o = prev.c ∨ (prev.c = c.o ∧ fixJump prev c = c) := by
  unfold fixJump
  by_cases h1 : prev.c < c.o
  · left; simp [h1]
  · by_cases h2 : prev.c > c.o
    · left; simp [h1, h2]
    · right
      have : prev.c = c.o := le_antisymm (not_lt.mp h2) (not_lt.mp h1)
      simp [h1, h2, this]

theorem fix_jump_bounds (prev c : Candle) (hv : c.Valid) :
    (fixJump prev c).Valid ∧ (fixJump prev c).l = min c.l prev.c ∧ (fixJump prev c).h = max c.h prev.c := by
  obtain ⟨a, b, d, e⟩ := hv
  unfold fixJump Candle.Valid
  by_cases h1 : prev.c < c.o
  · simp only [h1, if_true, minR_eq_min]
    refine ⟨⟨min_le_left _ _, by linarith, ?_, e⟩, by rw [min_comm], ?_⟩
    · exact le_trans (min_le_right _ _) d
    · rw [max_eq_left]; linarith
  · by_cases h2 : prev.c > c.o
    · simp only [h1, h2, if_true, if_false, maxR_eq_max]
      refine ⟨⟨by linarith, le_max_left _ _, d, ?_⟩, ?_, by rw [max_comm]⟩
      · exact le_trans e (le_max_right _ _)
      · rw [min_eq_left]; linarith
    · have : prev.c = c.o := le_antisymm (not_lt.mp h2) (not_lt.mp h1)
      simp only [h1, h2, if_false]
      refine ⟨⟨a, b, d, e⟩, ?_, ?_⟩
      · rw [min_eq_left]; linarith
      · rw [max_eq_left]; linarith

/-! ### what a reader gets from the store -/

/-- The store invariant maintained by both simulators for a timeframe of `m` minutes:
    the long array holds the aggregates of the complete windows of the stored 1m candles, possibly
    followed by ONE partial candle of the forming window (stored when an order was executed), which
    carries the forming window's start timestamp. -/
def StoreInv (m : Nat) (short long : List Candle) : Prop :=
  let k := short.length / m
  ∃ partials : List Candle,
    long = visible m (short.take (k * m)) ++ partials ∧
    (partials = [] ∨ ∃ p s0, partials = [p] ∧ short.length % m ≠ 0 ∧ short[k * m]? = some s0 ∧ p.ts = s0.ts)

theorem visible_split (m : Nat) (short : List Candle) (hm : 0 < m) :
    visible m short = visible m (short.take (short.length / m * m)) ++
      (match aggregate (short.drop (short.length / m * m)) with | some g => [g] | none => []) := by
  have hsplit : short = short.take (short.length / m * m) ++ short.drop (short.length / m * m) :=
    (List.take_append_drop _ _).symm
  have hle : short.length / m * m ≤ short.length := Nat.div_mul_le_self _ _
  have htl : (short.take (short.length / m * m)).length = short.length / m * m := by simp; omega
  conv => lhs; rw [hsplit]
  unfold visible
  rw [windows_prefix_append m _ _ _ hm htl, List.filterMap_append]
  congr 1
  by_cases hd : short.drop (short.length / m * m) = []
  · rw [hd, windows_nil]; simp [aggregate]
  · have hdl : (short.drop (short.length / m * m)).length ≤ m := by
      simp only [List.length_drop]
      have := Nat.mod_lt short.length hm
      have := Nat.div_add_mod short.length m
      rw [Nat.mul_comm] at this; omega
    rw [windows_short m _ hm hd hdl]
    simp only [List.filterMap_cons, List.filterMap_nil]
    cases aggregate (short.drop (short.length / m * m)) <;> rfl

/-- `get_candles`: under the store invariant (and strictly increasing 1m timestamps) a reader gets
    exactly one candle per started window — the aggregates of the complete windows and, while a
    window is forming, the aggregate of its minutes so far; never an error. -/
theorem get_candles_spec (m : Nat) (short long : List Candle) (hm : 0 < m)
    (hinv : StoreInv m short long)
    (hts : short.Pairwise (fun a b => a.ts < b.ts)) :
    getCandles short long m = .ok (visible m short) := by
  obtain ⟨partials, hlong, hpart⟩ := hinv
  have hle : short.length / m * m ≤ short.length := Nat.div_mul_le_self _ _
  have hdm := Nat.div_add_mod short.length m
  have hml := Nat.mod_lt short.length hm
  unfold getCandles
  by_cases hd : short.length % m = 0
  · -- on a window boundary: no partial candle can exist, the long array is returned
    have hk : short.length / m * m = short.length := by rw [Nat.mul_comm]; omega
    have hp : partials = [] := by
      rcases hpart with h | ⟨p, s0, _, hne, _⟩
      · exact h
      · exact absurd hd hne
    subst hp
    have hvis : long = visible m short := by
      rw [hlong, hk, List.take_of_length_le (le_refl _)]; simp
    simp only [hd, true_and]
    by_cases hl0 : long.length = 0
    · simp only [hl0, if_true]
      rw [← hvis]; exact congrArg _ (List.length_eq_zero_iff.mp hl0).symm
    · simp only [hl0, if_false, if_true]; rw [hvis]
  · simp only [hd, false_and, if_false]
    have hidx : short.length - short.length % m = short.length / m * m := by rw [Nat.mul_comm]; omega
    rw [hidx]
    have hlt : short.length / m * m < short.length := by rw [Nat.mul_comm]; omega
    rw [List.getElem?_eq_getElem hlt]
    simp only []
    -- the forming candle
    have hdne : short.drop (short.length / m * m) ≠ [] := by
      intro h; have := congrArg List.length h; simp at this; omega
    rw [generate_is_aggregate]
    cases hagg : aggregate (short.drop (short.length / m * m)) with
    | none =>
      cases hdd : short.drop (short.length / m * m) with
      | nil => exact absurd hdd hdne
      | cons a b => rw [hdd] at hagg; simp [aggregate] at hagg
    | some g =>
      simp only []
      rw [visible_split m short hm, hagg]
      congr 2
      -- the complete part
      rcases hpart with hp | ⟨p, s0, hp, _, hs0, hpts⟩
      · subst hp
        simp only [List.append_nil] at hlong
        cases hl : long.getLast? with
        | none => simp only []; exact hlong
        | some l =>
          simp only []
          -- the last complete candle starts strictly before the forming window
          have hne : ¬ l.ts = (short[short.length / m * m]).ts := by
            intro heq
            -- l is the aggregate of an earlier window: its timestamp is that of an earlier 1m candle
            have hmem : l ∈ visible m (short.take (short.length / m * m)) := by
              rw [← hlong]; exact List.mem_of_getLast? hl
            unfold visible at hmem
            obtain ⟨w, hw, hwa⟩ := List.mem_filterMap.mp hmem
            -- every window of the prefix consists of candles of the prefix
            have hsub : ∀ (xs : List Candle) (w : List Candle), w ∈ windows m xs → ∀ c ∈ w, c ∈ xs := by
              intro xs
              induction hn : xs.length using Nat.strong_induction_on generalizing xs with
              | _ n ih =>
                intro w hw c hc
                by_cases hx : xs = []
                · subst hx; rw [windows_nil] at hw; cases hw
                · rw [windows_step m xs hm hx] at hw
                  rcases List.mem_cons.mp hw with h1 | h1
                  · subst h1; exact List.mem_of_mem_take hc
                  · have hlen : (xs.drop m).length < n := by
                      subst hn; simp only [List.length_drop]
                      have : 0 < xs.length := List.length_pos_iff.mpr hx
                      omega
                    exact List.mem_of_mem_drop (ih _ hlen (xs.drop m) rfl w h1 c hc)
            cases w with
            | nil => simp [aggregate] at hwa
            | cons c0 rest =>
              simp only [aggregate, Option.some.injEq] at hwa
              have hc0 : c0 ∈ short.take (short.length / m * m) := hsub _ _ hw c0 List.mem_cons_self
              have hl0 : l.ts = c0.ts := by rw [← hwa]
              -- c0 sits at an index below the forming window's start
              obtain ⟨i, hi, hci⟩ := List.getElem_of_mem hc0
              have hi' : i < short.length / m * m := by
                have := hi; simp only [List.length_take] at this; omega
              have hci' : short[i]'(by omega) = c0 := by
                rw [← hci]; simp
              have := List.pairwise_iff_getElem.mp hts i (short.length / m * m) (by omega) hlt hi'
              rw [hci'] at this
              omega
          simp only [hne, if_false]; exact hlong
      · subst hp
        have hs0' : short[short.length / m * m] = s0 := by
          rw [List.getElem?_eq_getElem hlt] at hs0; injection hs0
        have hl : long.getLast? = some p := by rw [hlong]; simp
        simp only [hl, hs0', hpts, if_true]
        rw [hlong, List.dropLast_concat]

/-- `get_current_candle`: the last visible candle (the forming one while a window is forming). -/
theorem get_current_candle_spec (m : Nat) (short long : List Candle) (hm : 0 < m)
    (hinv : StoreInv m short long) :
    getCurrentCandle short long m = .ok (visible m short).getLast? := by
  obtain ⟨partials, hlong, hpart⟩ := hinv
  have hle : short.length / m * m ≤ short.length := Nat.div_mul_le_self _ _
  have hdm := Nat.div_add_mod short.length m
  unfold getCurrentCandle
  by_cases hd : short.length % m = 0
  · have hk : short.length / m * m = short.length := by rw [Nat.mul_comm]; omega
    have hp : partials = [] := by
      rcases hpart with h | ⟨p, s0, _, hne, _⟩
      · exact h
      · exact absurd hd hne
    subst hp
    simp only [hd, ne_eq, not_true_eq_false, if_false]
    rw [hlong, hk, List.take_of_length_le (le_refl _)]; simp
  · simp only [hd, ne_eq, not_false_eq_true, if_true]
    have hidx : short.length - short.length % m = short.length / m * m := by rw [Nat.mul_comm]; omega
    rw [hidx, generate_is_aggregate, visible_split m short hm]
    have hdne : short.drop (short.length / m * m) ≠ [] := by
      intro h; have := congrArg List.length h; simp at this; omega
    cases hagg : aggregate (short.drop (short.length / m * m)) with
    | none =>
      cases hdd : short.drop (short.length / m * m) with
      | nil => exact absurd hdd hdne
      | cons a b => rw [hdd] at hagg; simp [aggregate] at hagg
    | some g => simp

/-- non-vacuity: a store with two complete 3-minute windows, a stale partial candle of the third
    window and one more minute: the reader gets the regenerated forming candle -/
example :
    let ones : List Candle := [⟨0, 1, 2, 3, 1, 1⟩, ⟨60000, 2, 3, 4, 2, 1⟩, ⟨120000, 3, 2, 3, 1, 1⟩,
                               ⟨180000, 2, 5, 6, 2, 2⟩, ⟨240000, 5, 4, 5, 3, 1⟩, ⟨300000, 4, 4, 4, 4, 1⟩,
                               ⟨360000, 4, 7, 8, 4, 1⟩, ⟨420000, 7, 6, 7, 5, 3⟩]
    let long : List Candle := [⟨0, 1, 2, 4, 1, 3⟩, ⟨180000, 2, 4, 6, 2, 4⟩, ⟨360000, 4, 5, 5, 4, 1⟩]
    (match getCandles ones long 3 with
     | .ok r => decide (r = [⟨0, 1, 2, 4, 1, 3⟩, ⟨180000, 2, 4, 6, 2, 4⟩, ⟨360000, 4, 6, 8, 4, 4⟩])
     | _ => false) = true := by decide +kernel

/-! ### the store protocol of the simulators: how `StoreInv` is (re)established at every observation time

Both simulators write the store of one (symbol, timeframe `m`) with four operations only:
* NEW MINUTE — `add_candle(1m row)` with a later timestamp (the next minute of the session);
* REPLACE LAST — `add_candle(1m row)` with the timestamp of the last stored minute (the partial candle of a fill,
  or the whole minute once matching is over);
* PUBLISH — `_update_all_routes_a_partial_candle`: after a REPLACE LAST, the aggregate of the minutes of the
  forming window (selected by TIMESTAMP arithmetic) is added to the long array — before every order execution,
  and (since fix 0726e8d1) before the forced close of a liquidation;
* CLOSE WINDOW — when `(i + 1) % m == 0`, the aggregate of the window's `m` rows is added to the long array.
Hooks (the observation times of the property) run after a PUBLISH or after all CLOSE WINDOWs of the iteration.
The theorems below show, for every store content and every timeframe, that NEW MINUTE and REPLACE LAST keep the
weaker `PreInv` (the long array is right up to the window that contains the last stored minute, possibly followed by
one candle carrying that window's start timestamp) and that PUBLISH and CLOSE WINDOW turn `PreInv` into `StoreInv`,
from which `get_candles_spec` / `get_current_candle_spec` give what a reader sees. -/

open StoreProto in
/-- the long array is right up to the window that contains the last stored minute; that window has no candle yet, or
    one candle carrying its start timestamp (whatever its content) -/
def PreInv (m : Nat) (short long : List Candle) : Prop :=
  ∃ partials : List Candle,
    long = visible m (short.take (StoreProto.k0 m short * m)) ++ partials ∧
    (partials = [] ∨ ∃ p s0, partials = [p] ∧ short[StoreProto.k0 m short * m]? = some s0 ∧ p.ts = s0.ts)

/-- session timestamps: minute `j` of the stored series starts at `t0 + j` minutes -/
def Spaced (t0 : Int) (short : List Candle) : Prop :=
  ∀ j (h : j < short.length), short[j].ts = t0 + 60000 * (j : Int)

open StoreProto in
/-- `StoreInv` implies `PreInv` (on a window boundary the last complete candle plays the part of the partial one) -/
theorem pre_of_inv (m : Nat) (short long : List Candle) (hm : 0 < m) (hne : short ≠ [])
    (hinv : StoreInv m short long) : PreInv m short long := by
  obtain ⟨partials, hlong, hpart⟩ := hinv
  by_cases hb : short.length % m = 0
  · obtain ⟨hq, hfull⟩ := k0_of_boundary m short hm hne hb
    have hp : partials = [] := by
      rcases hpart with h | ⟨p, s0, _, hne', _⟩
      · exact h
      · exact absurd hb hne'
    subst hp
    obtain ⟨a, s0, _, hvis, hs0, hts⟩ := visible_last m short hm hne
    refine ⟨[a], ?_, Or.inr ⟨a, s0, rfl, hs0, hts⟩⟩
    rw [hlong, hq, hfull, List.take_of_length_le (le_refl _), List.append_nil]
    exact hvis
  · have hq := k0_of_forming m short hm hb
    refine ⟨partials, by rw [hlong, hq], ?_⟩
    rcases hpart with h | ⟨p, s0, hp, _, hs0, hts⟩
    · exact Or.inl h
    · exact Or.inr ⟨p, s0, hp, by rw [← hq]; exact hs0, hts⟩

open StoreProto in
/-- inside a window (`len % m ≠ 0`) `PreInv` IS `StoreInv`: a reader regenerates the forming candle -/
theorem inv_of_pre_forming (m : Nat) (short long : List Candle) (hm : 0 < m)
    (hb : short.length % m ≠ 0) (hpre : PreInv m short long) : StoreInv m short long := by
  obtain ⟨partials, hlong, hpart⟩ := hpre
  have hq := k0_of_forming m short hm hb
  refine ⟨partials, by rw [hq]; exact hlong, ?_⟩
  rcases hpart with h | ⟨p, s0, hp, hs0, hts⟩
  · exact Or.inl h
  · exact Or.inr ⟨p, s0, hp, hb, by rw [hq]; exact hs0, hts⟩

open StoreProto in
/-- NEW MINUTE: appending the next minute to a store that satisfies `StoreInv` gives `PreInv` -/
theorem pre_of_new_minute (m : Nat) (short long : List Candle) (c : Candle) (hm : 0 < m)
    (hinv : StoreInv m short long) : PreInv m (short ++ [c]) long := by
  obtain ⟨partials, hlong, hpart⟩ := hinv
  have hk : k0 m (short ++ [c]) = short.length / m := by unfold k0; simp
  have hle : short.length / m * m ≤ short.length := Nat.div_mul_le_self _ _
  unfold PreInv
  rw [hk, List.take_append_of_le_length hle]
  refine ⟨partials, hlong, ?_⟩
  rcases hpart with h | ⟨p, s0, hp, hne', hs0, hts⟩
  · exact Or.inl h
  · refine Or.inr ⟨p, s0, hp, ?_, hts⟩
    have hlt : short.length / m * m < short.length := by
      have := Nat.div_add_mod short.length m
      rw [Nat.mul_comm] at this; omega
    rw [List.getElem?_append_left hlt]; exact hs0

open StoreProto in
/-- REPLACE LAST: rewriting the last stored minute (same timestamp) keeps `PreInv` -/
theorem pre_of_replace_last (m : Nat) (short long : List Candle) (c last : Candle) (hm : 0 < m)
    (hlast : short.getLast? = some last) (hts : c.ts = last.ts)
    (hpre : PreInv m short long) : PreInv m (short.dropLast ++ [c]) long := by
  have hne : short ≠ [] := by intro h; rw [h] at hlast; simp at hlast
  obtain ⟨partials, hlong, hpart⟩ := hpre
  have hpos : 0 < short.length := List.length_pos_iff.mpr hne
  have hlen : (short.dropLast ++ [c]).length = short.length := by simp; omega
  have hk : k0 m (short.dropLast ++ [c]) = k0 m short := by unfold k0; rw [hlen]
  have hlt := k0_mul_lt m short hm hne
  have hle : k0 m short * m ≤ short.dropLast.length := by simp; omega
  have htake : (short.dropLast ++ [c]).take (k0 m short * m) = short.take (k0 m short * m) := by
    rw [List.take_append_of_le_length hle, List.dropLast_eq_take, List.take_take]
    congr 1; omega
  unfold PreInv
  rw [hk, htake]
  refine ⟨partials, hlong, ?_⟩
  rcases hpart with h | ⟨p, s0, hp, hs0, hpts⟩
  · exact Or.inl h
  · by_cases hidx : k0 m short * m < short.dropLast.length
    · refine Or.inr ⟨p, s0, hp, ?_, hpts⟩
      rw [List.getElem?_append_left hidx, List.dropLast_eq_take, List.getElem?_take]
      have : k0 m short * m < short.length - 1 := by simpa using hidx
      simp only [this, if_true]; exact hs0
    · -- the window starts at the last stored minute itself: the new row has the same timestamp
      have hidx' : k0 m short * m = short.length - 1 := by
        have : ¬ k0 m short * m < short.length - 1 := by simpa using hidx
        omega
      have hs0l : s0 = last := by
        rw [List.getLast?_eq_getElem?, ← hidx', hs0] at hlast; injection hlast
      refine Or.inr ⟨p, c, hp, ?_, by rw [hpts, hs0l, hts]⟩
      have : short.dropLast.length = k0 m short * m := by simp; omega
      rw [List.getElem?_append_right (by omega), this]; simp

open StoreProto in
/-- PUBLISH / CLOSE WINDOW: adding the aggregate `g` of the window that contains the last stored minute to the long
    array turns `PreInv` into `StoreInv` — in the middle of a window (the candle is the forming one) and on a window
    boundary (it is the completed one) alike. -/
theorem inv_of_window_candle (m : Nat) (short long : List Candle) (t0 : Int) (g : Candle) (hm : 0 < m)
    (hne : short ≠ []) (ht0 : 0 < t0) (hsp : Spaced t0 short) (hpre : PreInv m short long)
    (hg : generate m (short.drop (k0 m short * m)) = .ok g) :
    StoreInv m short (addCandle long g) := by
  obtain ⟨partials, hlong, hpart⟩ := hpre
  obtain ⟨a, s0, hagg, hvis, hs0, hats⟩ := visible_last m short hm hne
  have hga : g = a := by
    rw [generate_is_aggregate, hagg] at hg; injection hg with h; exact h.symm
  subst hga
  have hlt := k0_mul_lt m short hm hne
  have hs0e : s0 = short[k0 m short * m] := by
    rw [List.getElem?_eq_getElem hlt] at hs0; injection hs0 with h; exact h.symm
  have hgts : g.ts = t0 + 60000 * ((k0 m short * m : Nat) : Int) := by
    rw [hats, hs0e]; exact hsp _ hlt
  have hg0 : ¬ g.ts = 0 := by
    rw [hgts]; have : (0 : Int) ≤ ((k0 m short * m : Nat) : Int) := Int.natCast_nonneg _; omega
  -- every candle of the complete windows starts before the window of `g`
  have hbefore : ∀ v ∈ visible m (short.take (k0 m short * m)), v.ts < g.ts := by
    intro v hv
    obtain ⟨c, hc, hvc⟩ := visible_ts_mem m _ v hv
    obtain ⟨i, hi, hci⟩ := List.getElem_of_mem hc
    have hi' : i < k0 m short * m := by simp only [List.length_take] at hi; omega
    have hci' : short[i]'(by omega) = c := by rw [← hci]; simp
    have := hsp i (by omega)
    rw [hci'] at this
    rw [hvc, this, hgts]
    have : (i : Int) < ((k0 m short * m : Nat) : Int) := by exact_mod_cast hi'
    omega
  -- the long array after the write
  have hadd : addCandle long g = visible m (short.take (k0 m short * m)) ++ [g] := by
    unfold addCandle
    simp only [hg0, if_false]
    rcases hpart with hp | ⟨p, s0', hp, hs0', hpts⟩
    · subst hp
      rw [List.append_nil] at hlong
      cases hl : long.getLast? with
      | none =>
        have : long = [] := List.getLast?_eq_none_iff.mp hl
        simp only []; rw [← hlong, this]
      | some l =>
        have hlm : l ∈ visible m (short.take (k0 m short * m)) := by
          rw [← hlong]; exact List.mem_of_getLast? hl
        have := hbefore l hlm
        simp only [this, if_true]; rw [hlong]
    · subst hp
      have hl : long.getLast? = some p := by rw [hlong]; simp
      have hpe : p.ts = g.ts := by
        rw [hpts, hats]; rw [hs0] at hs0'; injection hs0' with h; rw [h]
      have hngt : ¬ g.ts > g.ts := lt_irrefl _
      simp only [hl, hpe, hngt, if_false, if_true]
      rw [hlong, List.dropLast_concat]
  rw [hadd]
  by_cases hb : short.length % m = 0
  · obtain ⟨hq, hfull⟩ := k0_of_boundary m short hm hne hb
    refine ⟨[], ?_, Or.inl rfl⟩
    rw [hq, hfull, List.take_of_length_le (le_refl _), List.append_nil]
    exact hvis.symm
  · have hq := k0_of_forming m short hm hb
    refine ⟨[g], by rw [hq], Or.inr ⟨g, s0, rfl, hb, ?_, hats⟩⟩
    rw [hq]; exact hs0

open StoreProto in
/-- the window `_update_all_routes_a_partial_candle` selects by TIMESTAMP arithmetic
    (`int(ts % (m * 60_000) // 60000) + 1` rows from the end) is the window that contains the last stored minute,
    when the session starts on a boundary of the timeframe (as the property assumes) -/
theorem needed_rows (m : Nat) (short : List Candle) (t0 : Int) (last : Candle) (hm : 0 < m)
    (ht0 : 0 ≤ t0) (hal : t0 % ((m : Int) * 60000) = 0) (hsp : Spaced t0 short)
    (hlast : short.getLast? = some last) :
    short.length - (((last.ts % ((m : Int) * 60000)) / 60000).toNat + 1) = k0 m short * m := by
  have hne : short ≠ [] := by intro h; rw [h] at hlast; simp at hlast
  have hpos : 0 < short.length := List.length_pos_iff.mpr hne
  have hl : last = short[short.length - 1] := by
    rw [List.getLast?_eq_getElem?, List.getElem?_eq_getElem (by omega)] at hlast
    injection hlast with h; exact h.symm
  have hts : last.ts = t0 + 60000 * ((short.length - 1 : Nat) : Int) := by rw [hl]; exact hsp _ (by omega)
  obtain ⟨q, hq⟩ : ∃ q : Int, t0 = ((m : Int) * 60000) * q := ⟨t0 / ((m : Int) * 60000), by
    have := Int.emod_add_mul_ediv t0 ((m : Int) * 60000); rw [hal] at this; omega⟩
  have hmod := Nat.div_add_mod (short.length - 1) m
  have hr := Nat.mod_lt (short.length - 1) hm
  -- ts = (m*60000) * (q + k0) + 60000 * r  with r = (len-1) % m < m
  have hdecomp : last.ts = ((m : Int) * 60000) * (q + ((short.length - 1) / m : Nat)) + 60000 * (((short.length - 1) % m : Nat) : Int) := by
    rw [hts, hq]
    have : ((short.length - 1 : Nat) : Int) = (m : Int) * ((short.length - 1) / m : Nat) + ((short.length - 1) % m : Nat) := by
      exact_mod_cast hmod.symm
    rw [this]; ring
  have hrem : last.ts % ((m : Int) * 60000) = 60000 * (((short.length - 1) % m : Nat) : Int) := by
    rw [hdecomp, Int.add_comm, Int.add_mul_emod_self_left]
    apply Int.emod_eq_of_lt
    · positivity
    · have : (((short.length - 1) % m : Nat) : Int) < (m : Int) := by exact_mod_cast hr
      nlinarith
  rw [hrem, Int.mul_ediv_cancel_left _ (by norm_num : (60000 : Int) ≠ 0), Int.toNat_natCast]
  unfold k0
  rw [Nat.mul_comm] at hmod
  omega

/-- non-vacuity of the protocol theorems: three stored minutes of a 3-minute timeframe starting at t0 = 180000
    (a boundary), the long array still empty: `PreInv` holds, and adding the window's aggregate gives `StoreInv`. -/
example :
    let ones : List Candle := [⟨180000, 1, 2, 3, 1, 1⟩, ⟨240000, 2, 3, 4, 2, 1⟩, ⟨300000, 3, 2, 3, 1, 1⟩]
    PreInv 3 ones [] ∧ Spaced 180000 ones ∧ (180000 : Int) % ((3 : Nat) * 60000) = 0 ∧
      generate 3 (ones.drop (StoreProto.k0 3 ones * 3)) = .ok ⟨180000, 1, 2, 4, 1, 3⟩ := by
  refine ⟨⟨[], by decide +kernel, Or.inl rfl⟩, ?_, by decide, by decide +kernel⟩
  intro j h
  have : j < 3 := h
  match j, this with
  | 0, _ => rfl
  | 1, _ => rfl
  | 2, _ => rfl

/-! ### no strategy writes the store

The four protocol operations above are the ONLY writers of the candle store: whatever the user strategy does in any
hook (an arbitrary `UserStrategy`), the strategy layer leaves `Engine.stores` untouched — a whole strategy step, the
execution of an order with all its position hooks and the reactions they trigger, the pending MARKET-order queue,
the route step of an iteration and the end of the run.  (One lemma per function of the strategy layer in
Proofs/Lemmas/StoreFrame.lean, so the store a hook reads is the store the simulator published just before.) -/

section frame
open Jesse.Eng
variable {M : Type} [Inhabited M] (u : UserStrategy M)

theorem order_execution_never_writes_store (e : Engine M) (id : Nat) :
    (executeOrder u e id).stores = e.stores := (StoreFrame.executeOrder_ss u e id).1

theorem strategy_step_never_writes_store (fuel : Nat) (e : Engine M) (r : Nat) :
    (executeStrategy u fuel e r).stores = e.stores := (StoreFrame.executeStrategy_ss u fuel e r).1

theorem market_queue_never_writes_store (fuel : Nat) (e : Engine M) :
    (executePendingMarketOrders u fuel e).stores = e.stores := (StoreFrame.pending_ss u fuel e).1

theorem routes_step_never_writes_store (fuel : Nat) (e : Engine M) (i b : Nat) :
    (routesStep u fuel e i b).stores = e.stores := (StoreFrame.routesStep_ss u fuel e i b).1

theorem finish_run_never_writes_store (fuel : Nat) (e : Engine M) :
    (finishRun u fuel e).stores = e.stores := (StoreFrame.finishRun_ss u fuel e).1

end frame

/-! ### PUBLISH in the engine establishes the store invariant

The engine's `_update_all_routes_a_partial_candle` (called before every order execution of both simulators and before
the forced close of a liquidation) is, on the store of its symbol, REPLACE LAST followed by PUBLISH
(`StoreFrame.updatePartialCandle_store`).  So, for a symbol with one bigger timeframe `m`: if the store satisfied `PreInv`
(which NEW MINUTE and REPLACE LAST keep) then after the call it satisfies `StoreInv` — and it still does at every hook
the execution fires, because no strategy writes the store. -/

section publish
open Jesse.Eng StoreProto
variable {M : Type}

/-- one PUBLISH step on a store whose last stored minute is `c`: the timeframe's array satisfies `StoreInv` afterwards,
    the 1m array and every other timeframe's array are untouched -/
theorem pubStep_inv (c : Candle) (X : SymStore) (m : Nat) (t0 : Int) (hm : 0 < m) (ht0 : 0 < t0)
    (hal : t0 % ((m : Int) * 60000) = 0) (hsp : Spaced t0 X.short) (hlast : X.short.getLast? = some c)
    (hpre : PreInv m X.short (longOf X m)) :
    (StoreFrame.pubStep c X m).short = X.short ∧
    StoreInv m X.short (longOf (StoreFrame.pubStep c X m) m) ∧
    ∀ m', m' ≠ m → longOf (StoreFrame.pubStep c X m) m' = longOf X m' := by
  have hne : X.short ≠ [] := by intro h; rw [h] at hlast; simp at hlast
  have hrows := needed_rows m X.short t0 c hm (le_of_lt ht0) hal hsp hlast
  unfold StoreFrame.pubStep
  rw [hrows]
  have hdne : X.short.drop (k0 m X.short * m) ≠ [] := by
    have := k0_mul_lt m X.short hm hne
    intro h0
    have h1 : (X.short.drop (k0 m X.short * m)).length = 0 := by rw [h0]; rfl
    rw [List.length_drop] at h1; omega
  obtain ⟨g, _, hagg, _, _⟩ := aggregate_some _ hdne
  have hgen : generate m (X.short.drop (k0 m X.short * m)) = .ok g := by rw [generate_is_aggregate, hagg]
  rw [hgen]
  refine ⟨rfl, ?_, fun m' h => StoreFrame.longOf_setLong_other X m m' _ h⟩
  rw [StoreFrame.longOf_setLong_same]
  exact inv_of_window_candle m X.short (longOf X m) t0 g hm hne ht0 hsp hpre hgen

/-- PUBLISH for a list of timeframes (in any order, repetitions allowed): every timeframe of the list satisfies
    `StoreInv` at the end, the others keep `PreInv`, the 1m array is untouched -/
theorem pubFold_inv (c : Candle) (t0 : Int) (ht0 : 0 < t0) (T : List Nat)
    (hT : ∀ m ∈ T, 0 < m ∧ t0 % ((m : Int) * 60000) = 0) (L : List Nat) (hL : ∀ m ∈ L, m ∈ T) :
    ∀ (X : SymStore) (D : List Nat), Spaced t0 X.short → X.short.getLast? = some c →
      (∀ m ∈ T, PreInv m X.short (longOf X m)) → (∀ m ∈ D, StoreInv m X.short (longOf X m)) →
      (L.foldl (StoreFrame.pubStep c) X).short = X.short ∧
      (∀ m ∈ T, PreInv m X.short (longOf (L.foldl (StoreFrame.pubStep c) X) m)) ∧
      (∀ m ∈ D ++ L, StoreInv m X.short (longOf (L.foldl (StoreFrame.pubStep c) X) m)) := by
  induction L with
  | nil => intro X D _ _ hpre hD; exact ⟨rfl, hpre, by simpa using hD⟩
  | cons m rest ih =>
    intro X D hsp hlast hpre hD
    have hmT : m ∈ T := hL m List.mem_cons_self
    obtain ⟨hm, hal⟩ := hT m hmT
    have hne : X.short ≠ [] := by intro h; rw [h] at hlast; simp at hlast
    obtain ⟨hs, hinv, hoth⟩ := pubStep_inv c X m t0 hm ht0 hal hsp hlast (hpre m hmT)
    simp only [List.foldl_cons]
    have hpre' : ∀ m' ∈ T, PreInv m' (StoreFrame.pubStep c X m).short (longOf (StoreFrame.pubStep c X m) m') := by
      intro m' hm'
      rw [hs]
      by_cases h : m' = m
      · subst h; exact pre_of_inv m' X.short _ (hT m' hm').1 hne hinv
      · rw [hoth m' h]; exact hpre m' hm'
    have hD' : ∀ m' ∈ D ++ [m], StoreInv m' (StoreFrame.pubStep c X m).short (longOf (StoreFrame.pubStep c X m) m') := by
      intro m' hm'
      rw [hs]
      by_cases h : m' = m
      · subst h; exact hinv
      · rw [hoth m' h]
        rcases List.mem_append.mp hm' with h1 | h1
        · exact hD m' h1
        · exact absurd (List.mem_singleton.mp h1) h
    obtain ⟨r1, r2, r3⟩ := ih (fun x hx => hL x (List.mem_cons_of_mem _ hx)) (StoreFrame.pubStep c X m) (D ++ [m])
      (by rw [hs]; exact hsp) (by rw [hs]; exact hlast) hpre' hD'
    rw [hs] at r1 r2 r3
    refine ⟨r1, r2, ?_⟩
    intro m' hm'
    apply r3 m'
    simp only [List.mem_append, List.mem_cons, List.mem_singleton, List.not_mem_nil, or_false] at hm' ⊢
    rcases hm' with h | h | h
    · exact Or.inl (Or.inl h)
    · exact Or.inl (Or.inr h)
    · exact Or.inr h

/-- the bigger timeframes of a symbol, as `_update_all_routes_a_partial_candle` walks them -/
def tfsRaw (cfg : Cfg) (sym : Nat) : List Nat :=
  ((cfg.routes ++ cfg.dataRoutes).filter (fun r => r.sym = sym ∧ r.tf ≠ 1)).map (·.tf)

/-- THE ENGINE'S PUBLISH ESTABLISHES THE INVARIANT FOR EVERY TIMEFRAME OF THE SYMBOL: if the store of the symbol
    satisfied `PreInv` for each of its bigger timeframes (which NEW MINUTE and REPLACE LAST keep), then after
    `_update_all_routes_a_partial_candle` with a candle carrying the last stored minute's timestamp the 1m array ends
    with that candle and EVERY bigger timeframe satisfies `StoreInv` — so every hook fired by the execution that follows
    reads, through `get_candles` / `get_current_candle`, exactly one candle per started window, each the aggregate of
    its stored minutes (`get_candles_spec`), because no strategy writes the store. -/
theorem publish_establishes_inv (e : Engine M) (sym : Nat) (c last : Candle) (t0 : Int)
    (hs : sym < e.stores.length) (ht0 : 0 < t0)
    (hT : ∀ m ∈ tfsRaw e.cfg sym, 0 < m ∧ t0 % ((m : Int) * 60000) = 0)
    (hsp : Spaced t0 (storeOf e sym).short)
    (hlast : (storeOf e sym).short.getLast? = some last) (hts : c.ts = last.ts)
    (hpre : ∀ m ∈ tfsRaw e.cfg sym, PreInv m (storeOf e sym).short (longOf (storeOf e sym) m)) :
    (storeOf (updatePartialCandle e sym c) sym).short = (storeOf e sym).short.dropLast ++ [c] ∧
    Spaced t0 (storeOf (updatePartialCandle e sym c) sym).short ∧
    ∀ m ∈ tfsRaw e.cfg sym, StoreInv m (storeOf (updatePartialCandle e sym c) sym).short
      (longOf (storeOf (updatePartialCandle e sym c) sym) m) := by
  rw [StoreFrame.updatePartialCandle_store e sym c hs]
  unfold tfsRaw at hT hpre
  generalize hS : storeOf e sym = S at *
  have hne : S.short ≠ [] := by intro h; rw [h] at hlast; simp at hlast
  have hpos : 0 < S.short.length := List.length_pos_iff.mpr hne
  have hl : last = S.short[S.short.length - 1] := by
    rw [List.getLast?_eq_getElem?, List.getElem?_eq_getElem (by omega)] at hlast
    injection hlast with h; exact h.symm
  have hlts : last.ts = t0 + 60000 * ((S.short.length - 1 : Nat) : Int) := by rw [hl]; exact hsp _ (by omega)
  have hc0 : ¬ c.ts = 0 := by
    rw [hts, hlts]; have : (0 : Int) ≤ ((S.short.length - 1 : Nat) : Int) := Int.natCast_nonneg _; omega
  -- REPLACE LAST
  have hadd : Store.addCandle S.short c = S.short.dropLast ++ [c] := by
    unfold Store.addCandle
    have hl0 : ¬ last.ts = 0 := by rw [← hts]; exact hc0
    have hngt : ¬ last.ts > last.ts := lt_irrefl _
    simp only [hts, hl0, if_false, hlast, hngt, if_true]
  rw [hadd]
  set short' := S.short.dropLast ++ [c] with hshort'
  have hlen' : short'.length = S.short.length := by simp [hshort']; omega
  have hsp' : Spaced t0 short' := by
    intro j hj
    by_cases hjl : j < S.short.dropLast.length
    · have : short'[j] = S.short[j]'(by rw [← hlen']; exact hj) := by
        simp only [hshort']
        rw [List.getElem_append_left hjl, List.getElem_dropLast]
      rw [this]; exact hsp j _
    · have hj' : j = S.short.length - 1 := by
        have : S.short.dropLast.length = S.short.length - 1 := by simp
        rw [hlen'] at hj; omega
      have : short'[j] = c := by
        simp only [hshort']
        rw [List.getElem_append_right (by omega)]
        simp
      rw [this, hts, hlts, hj']
  have hlast' : short'.getLast? = some c := by simp [hshort']
  have hpre' : ∀ m ∈ ((e.cfg.routes ++ e.cfg.dataRoutes).filter (fun r => r.sym = sym ∧ r.tf ≠ 1)).map (·.tf),
      PreInv m ({ S with short := short' } : SymStore).short (longOf ({ S with short := short' } : SymStore) m) :=
    fun m hm => pre_of_replace_last m S.short (longOf S m) c last (hT m hm).1 hlast hts (hpre m hm)
  obtain ⟨r1, _, r3⟩ := pubFold_inv c t0 ht0 _ hT _ (fun m hm => hm) ({ S with short := short' } : SymStore) []
    hsp' hlast' hpre' (by intro m hm; cases hm)
  refine ⟨r1, by rw [r1]; exact hsp', ?_⟩
  intro m hm
  rw [r1]
  exact r3 m (by rw [List.nil_append]; exact hm)

end publish

/-! ### the invariant through a whole minute of the normal simulator, for every strategy

`EPre e sym t0 ts`: while minute `ts` of symbol `sym` is being processed, the symbol's store has evenly spaced minutes,
its last stored minute is minute `ts`, and every bigger timeframe of the symbol satisfies `PreInv`.  The matching loop
(every fill: REPLACE LAST, PUBLISH, the execution with all its hooks, re-selection) keeps it, whatever the strategy does;
so does the end of the minute (REPLACE LAST with the whole minute, the liquidation check). -/

section run
open Jesse.Eng StoreProto
variable {M : Type} [Inhabited M] (u : UserStrategy M)

/-- both parts of a split candle carry the candle's timestamp -/
theorem split_ts (k : Candle) (p : Rat) (a b : Candle) (h : splitCandle k p = some (a, b)) :
    a.ts = k.ts ∧ b.ts = k.ts := by
  revert h
  unfold splitCandle
  repeat' (refine ite_elim (fun r => r = some (a, b) → a.ts = k.ts ∧ b.ts = k.ts) _ _ _ (fun hc => ?_) (fun hc => ?_))
  all_goals (intro h; first | (injection h with h; injection h with h1 h2; subst h1; subst h2; exact ⟨rfl, rfl⟩) | (exact absurd h (by simp)))

structure EPre (e : Engine M) (sym : Nat) (t0 ts : Int) (P : List Candle) : Prop where
  hs : sym < e.stores.length
  /-- the minutes stored before the one being processed -/
  pfx : (storeOf e sym).short.dropLast = P
  spaced : Spaced t0 (storeOf e sym).short
  last : ∃ l, (storeOf e sym).short.getLast? = some l ∧ l.ts = ts
  pre : ∀ m ∈ tfsRaw e.cfg sym, PreInv m (storeOf e sym).short (longOf (storeOf e sym) m)

/-- the session starts on a boundary of every bigger timeframe of the symbol (the property's assumption) -/
def AlignedCfg (cfg : Cfg) (sym : Nat) (t0 : Int) : Prop :=
  0 < t0 ∧ ∀ m ∈ tfsRaw cfg sym, 0 < m ∧ t0 % ((m : Int) * 60000) = 0

theorem EPre.of_same {e e' : Engine M} {sym : Nat} {t0 ts : Int} {P : List Candle} (h : StoreFrame.SSame e e') (hp : EPre e sym t0 ts P) :
    EPre e' sym t0 ts P := by
  obtain ⟨h1, h2⟩ := h
  have hst : storeOf e' sym = storeOf e sym := by unfold storeOf; rw [h1]
  exact ⟨by rw [h1]; exact hp.hs, by rw [hst]; exact hp.pfx, by rw [hst]; exact hp.spaced, by rw [hst]; exact hp.last, by rw [hst, h2]; exact hp.pre⟩

theorem updatePartialCandle_cfg_len (e : Engine M) (sym : Nat) (c : Candle) :
    (updatePartialCandle e sym c).cfg = e.cfg ∧ (updatePartialCandle e sym c).stores.length = e.stores.length := by
  unfold updatePartialCandle
  dsimp only
  have h1 : (addCandle e sym 1 c).cfg = e.cfg ∧ (addCandle e sym 1 c).stores.length = e.stores.length :=
    ⟨rfl, StoreFrame.stores_length_addCandle _ _ _ _⟩
  generalize (((e.cfg.routes ++ e.cfg.dataRoutes).filter (fun r => r.sym = sym ∧ r.tf ≠ 1)).map (·.tf)) = tfs
  revert h1
  generalize addCandle e sym 1 c = e1
  induction tfs generalizing e1 with
  | nil => intro h; exact h
  | cons tf rest ih =>
    intro h
    simp only [List.foldl_cons]
    apply ih
    split
    · exact ⟨h.1, by rw [StoreFrame.stores_length_addCandle]; exact h.2⟩
    · refine ⟨?_, by rw [StoreFrame.stores_length_fail]; exact h.2⟩
      unfold fail; split <;> exact h.1

/-- PUBLISH keeps `EPre` and establishes `StoreInv` for every bigger timeframe of the symbol -/
theorem publish_keeps_pre (e : Engine M) (sym : Nat) (c : Candle) (t0 ts : Int) (P : List Candle)
    (hal : AlignedCfg e.cfg sym t0) (hp : EPre e sym t0 ts P) (hc : c.ts = ts) :
    EPre (updatePartialCandle e sym c) sym t0 ts P ∧
    ∀ m ∈ tfsRaw e.cfg sym, StoreInv m (storeOf (updatePartialCandle e sym c) sym).short
      (longOf (storeOf (updatePartialCandle e sym c) sym) m) := by
  obtain ⟨l, hl, hlts⟩ := hp.last
  obtain ⟨r1, r2, r3⟩ := publish_establishes_inv e sym c l t0 hp.hs hal.1 hal.2 hp.spaced hl (by rw [hc, hlts]) hp.pre
  obtain ⟨hcfg, hlen⟩ := updatePartialCandle_cfg_len e sym c
  refine ⟨⟨by rw [hlen]; exact hp.hs, by rw [r1, List.dropLast_concat]; exact hp.pfx, r2, ⟨c, by rw [r1]; simp, hc⟩, ?_⟩, r3⟩
  intro m hm
  rw [hcfg] at hm
  have hne : (storeOf (updatePartialCandle e sym c) sym).short ≠ [] := by rw [r1]; simp
  exact pre_of_inv m _ _ (hal.2 m hm).1 hne (r3 m hm)

/-- THE MATCHING LOOP KEEPS THE PRE-INVARIANT, for every strategy: any number of fills inside the minute, each with
    REPLACE LAST, PUBLISH, the order's execution and every hook and reaction it triggers, and the re-selection. -/
theorem matchLoop_keeps_pre (fuel : Nat) : ∀ (e : Engine M) (sym : Nat) (cur : Candle) (cands : List Nat)
    (resel : Engine M → Candle → List Nat) (st : Bool) (t0 : Int) (P : List Candle),
    AlignedCfg e.cfg sym t0 → EPre e sym t0 cur.ts P →
    EPre (matchLoop u fuel e sym cur cands resel st).1 sym t0 cur.ts P ∧
    (matchLoop u fuel e sym cur cands resel st).1.cfg = e.cfg := by
  induction fuel with
  | zero =>
    intro e sym cur cands resel st t0 P _ hp; unfold matchLoop
    refine ⟨EPre.of_same (StoreFrame.fail_ss _ _) hp, ?_⟩
    unfold fail; split <;> rfl
  | succ f ih =>
    intro e sym cur cands resel st t0 P hal hp
    unfold matchLoop
    dsimp only
    split
    · exact ⟨hp, rfl⟩
    · split
      · exact ⟨hp, rfl⟩
      · split
        · refine ⟨EPre.of_same (StoreFrame.fail_ss _ _) hp, ?_⟩
          unfold fail; split <;> rfl
        · rename_i id0 _ _ a b hsplit
          obtain ⟨ha, hb⟩ := split_ts _ _ _ _ hsplit
          obtain ⟨hp1, _⟩ := publish_keeps_pre e sym a t0 cur.ts P hal hp ha
          obtain ⟨hcfg1, _⟩ := updatePartialCandle_cfg_len e sym a
          -- price, clock, execution: none of them writes the store or the configuration
          have hs2 : StoreFrame.SSame (updatePartialCandle e sym a)
              (executeOrder u (if st = true then { setCurrentPrice (updatePartialCandle e sym a) sym a.c with time := a.ts + 60000 }
                               else setCurrentPrice (updatePartialCandle e sym a) sym a.c) id0) := by
            refine StoreFrame.SSame.trans ?_ (StoreFrame.executeOrder_ss u _ _)
            split <;> exact ⟨rfl, rfl⟩
          revert hs2
          generalize executeOrder u (if st = true then { setCurrentPrice (updatePartialCandle e sym a) sym a.c with time := a.ts + 60000 }
                               else setCurrentPrice (updatePartialCandle e sym a) sym a.c) id0 = e4
          intro hs2
          have hp2 := EPre.of_same hs2 hp1
          have hcfg2 := hs2.2
          rw [← hb] at hp2 ⊢
          have := ih e4 sym b (resel e4 b) resel st t0 P (by rw [hcfg2, hcfg1]; exact hal) hp2
          exact ⟨this.1, by rw [this.2, hcfg2, hcfg1]⟩

/-- REPLACE LAST in the engine (`add_candle` of a 1m row carrying the last stored minute's timestamp) keeps `EPre` -/
theorem replace_last_keeps_pre (e : Engine M) (sym : Nat) (c : Candle) (t0 ts : Int) (P : List Candle)
    (hal : AlignedCfg e.cfg sym t0) (hp : EPre e sym t0 ts P) (hc : c.ts = ts) :
    EPre (addCandle e sym 1 c) sym t0 ts P := by
  obtain ⟨last, hlast, hlts⟩ := hp.last
  have hts : c.ts = last.ts := by rw [hc, hlts]
  have hst := StoreFrame.storeOf_addCandle e sym 1 c hp.hs
  simp only [if_true] at hst
  have hsp := hp.spaced
  have hpre := hp.pre
  have hpfx := hp.pfx
  generalize hS : storeOf e sym = S at *
  have hne : S.short ≠ [] := by intro h; rw [h] at hlast; simp at hlast
  have hpos : 0 < S.short.length := List.length_pos_iff.mpr hne
  have hl : last = S.short[S.short.length - 1] := by
    rw [List.getLast?_eq_getElem?, List.getElem?_eq_getElem (by omega)] at hlast
    injection hlast with h; exact h.symm
  have hlts' : last.ts = t0 + 60000 * ((S.short.length - 1 : Nat) : Int) := by rw [hl]; exact hsp _ (by omega)
  have hc0 : ¬ c.ts = 0 := by
    rw [hts, hlts']; have : (0 : Int) ≤ ((S.short.length - 1 : Nat) : Int) := Int.natCast_nonneg _
    have := hal.1; omega
  have hadd : Store.addCandle S.short c = S.short.dropLast ++ [c] := by
    unfold Store.addCandle
    have hl0 : ¬ last.ts = 0 := by rw [← hts]; exact hc0
    have hngt : ¬ last.ts > last.ts := lt_irrefl _
    simp only [hts, hl0, if_false, hlast, hngt, if_true]
  rw [hadd] at hst
  have hlen' : (S.short.dropLast ++ [c]).length = S.short.length := by simp; omega
  refine ⟨by rw [StoreFrame.stores_length_addCandle]; exact hp.hs, ?_, ?_, ?_, ?_⟩
  · rw [hst]; show (S.short.dropLast ++ [c]).dropLast = P; rw [List.dropLast_concat]; exact hpfx
  · rw [hst]
    intro j hj
    by_cases hjl : j < S.short.dropLast.length
    · have : (S.short.dropLast ++ [c])[j] = S.short[j]'(by rw [← hlen']; exact hj) := by
        rw [List.getElem_append_left hjl, List.getElem_dropLast]
      show (S.short.dropLast ++ [c])[j].ts = _
      rw [this]; exact hsp j _
    · have hj' : j = S.short.length - 1 := by
        have : S.short.dropLast.length = S.short.length - 1 := by simp
        have hj2 : j < (S.short.dropLast ++ [c]).length := hj
        rw [hlen'] at hj2; omega
      have : (S.short.dropLast ++ [c])[j] = c := by
        rw [List.getElem_append_right (by omega)]
        simp
      show (S.short.dropLast ++ [c])[j].ts = _
      rw [this, hts, hlts', hj']
  · rw [hst]; exact ⟨c, by simp, hc⟩
  · intro m hm
    rw [hst]
    have hm' : m ∈ tfsRaw e.cfg sym := hm
    exact pre_of_replace_last m S.short (longOf S m) c last (hal.2 m hm').1 hlast hts (hpre m hm')

/-- the tail of a triggered liquidation check: publish the last stored minute, execute the forced close -/
theorem liq_tail_keeps_pre (e e2 : Engine M) (sym id : Nat) (last : Candle) (t0 ts : Int) (P : List Candle)
    (hal : AlignedCfg e.cfg sym t0) (hp : EPre e sym t0 ts P) (hs1 : StoreFrame.SSame e e2)
    (hl : (storeOf e2 sym).short.getLast? = some last) :
    EPre (executeOrder u (updatePartialCandle e2 sym last) id) sym t0 ts P ∧
    (executeOrder u (updatePartialCandle e2 sym last) id).cfg = e.cfg := by
  have hp2 : EPre e2 sym t0 ts P := EPre.of_same hs1 hp
  obtain ⟨l0, hl0, hl0ts⟩ := hp2.last
  have hlast_eq : last = l0 := by rw [hl] at hl0; injection hl0
  have hal2 : AlignedCfg e2.cfg sym t0 := by rw [hs1.2]; exact hal
  obtain ⟨hp3, _⟩ := publish_keeps_pre e2 sym last t0 ts P hal2 hp2 (by rw [hlast_eq]; exact hl0ts)
  obtain ⟨hcfg3, _⟩ := updatePartialCandle_cfg_len e2 sym last
  have hs4 := StoreFrame.executeOrder_ss u (updatePartialCandle e2 sym last) id
  exact ⟨EPre.of_same hs4 hp3, by rw [hs4.2, hcfg3, hs1.2]⟩

/-- the liquidation check keeps `EPre`: it does nothing, or fails, or publishes the last stored minute and executes
    the forced close (whose hooks, whatever the strategy, do not write the store) -/
theorem checkLiquidation_keeps_pre (e : Engine M) (sym : Nat) (c : Candle) (t0 ts : Int) (P : List Candle)
    (hal : AlignedCfg e.cfg sym t0) (hp : EPre e sym t0 ts P) :
    EPre (checkLiquidation u e sym c) sym t0 ts P ∧ (checkLiquidation u e sym c).cfg = e.cfg := by
  unfold checkLiquidation
  dsimp only
  have hfail : ∀ (x : Engine M) (k : Err), StoreFrame.SSame e x → EPre (fail x k) sym t0 ts P ∧ (fail x k).cfg = e.cfg := by
    intro x k hx
    have h2 := StoreFrame.SSame.trans hx (StoreFrame.fail_ss x k)
    exact ⟨EPre.of_same h2 hp, h2.2⟩
  repeat' split
  all_goals first
    | exact ⟨hp, rfl⟩
    | (exact hfail _ _ ⟨rfl, rfl⟩)
    | (rename_i w' h _ last hl
       exact liq_tail_keeps_pre u e _ sym _ last t0 ts P hal hp ⟨rfl, rfl⟩ hl)
    | (rename_i w' h _ hl
       exact hfail _ _ ⟨rfl, rfl⟩)

/-- A WHOLE MINUTE of the normal simulator's matching keeps the pre-invariant, for every strategy: the matching loop,
    REPLACE LAST with the whole minute, the price update and the liquidation check -/
theorem simulateMinute_keeps_pre (fuel : Nat) (e : Engine M) (sym : Nat) (real : Candle) (t0 : Int) (P : List Candle)
    (hal : AlignedCfg e.cfg sym t0) (hp : EPre e sym t0 real.ts P) :
    EPre (simulateMinute u fuel e sym real) sym t0 real.ts P ∧ (simulateMinute u fuel e sym real).cfg = e.cfg := by
  unfold simulateMinute
  dsimp only
  split
  · exact ⟨hp, rfl⟩
  · have h := matchLoop_keeps_pre u fuel e sym real
      ((fun (e : Engine M) (c : Candle) => if (executingOrders e sym c).length > 1 then sortExecutionOrders e (executingOrders e sym c) [c] else executingOrders e sym c) e real)
      (fun (e : Engine M) (c : Candle) => if (executingOrders e sym c).length > 1 then sortExecutionOrders e (executingOrders e sym c) [c] else executingOrders e sym c) false t0 P hal hp
    revert h
    generalize matchLoop u fuel e sym real _ _ false = p
    intro h
    obtain ⟨e1, c'⟩ := p
    dsimp only at h ⊢
    obtain ⟨hp1, hcfg1⟩ := h
    split
    · exact ⟨hp1, hcfg1⟩
    · have hal1 : AlignedCfg e1.cfg sym t0 := by rw [hcfg1]; exact hal
      have hp2 := replace_last_keeps_pre e1 sym real t0 real.ts P hal1 hp1 rfl
      have hs3 : StoreFrame.SSame (addCandle e1 sym 1 real) (setCurrentPrice (addCandle e1 sym 1 real) sym real.c) := ⟨rfl, rfl⟩
      have hp3 := EPre.of_same hs3 hp2
      have hal3 : AlignedCfg (setCurrentPrice (addCandle e1 sym 1 real) sym real.c).cfg sym t0 := hal1
      obtain ⟨hp4, hcfg4⟩ := checkLiquidation_keeps_pre u _ sym real t0 real.ts P hal3 hp3
      exact ⟨hp4, by rw [hcfg4]; exact hcfg1⟩

/-- the liquidation check leaves the stored 1m rows as they are (its publish step rewrites the last row with itself) -/
theorem checkLiquidation_short (e : Engine M) (sym : Nat) (c : Candle) (t0 ts : Int) (P : List Candle)
    (hal : AlignedCfg e.cfg sym t0) (hp : EPre e sym t0 ts P) :
    (storeOf (checkLiquidation u e sym c) sym).short = (storeOf e sym).short := by
  unfold checkLiquidation
  dsimp only
  have hfail : ∀ (x : Engine M) (k : Err), StoreFrame.SSame e x → (storeOf (fail x k) sym).short = (storeOf e sym).short := by
    intro x k hx
    have h2 := StoreFrame.SSame.trans hx (StoreFrame.fail_ss x k)
    unfold storeOf; rw [h2.1]
  have htail : ∀ (e2 : Engine M) (id : Nat) (last : Candle), StoreFrame.SSame e e2 →
      (storeOf e2 sym).short.getLast? = some last →
      (storeOf (executeOrder u (updatePartialCandle e2 sym last) id) sym).short = (storeOf e sym).short := by
    intro e2 id last hs1 hl
    have hp2 : EPre e2 sym t0 ts P := EPre.of_same hs1 hp
    have hal2 : AlignedCfg e2.cfg sym t0 := by rw [hs1.2]; exact hal
    obtain ⟨r1, _, _⟩ := publish_establishes_inv e2 sym last last t0 hp2.hs hal2.1 hal2.2 hp2.spaced hl rfl hp2.pre
    have hs4 := StoreFrame.executeOrder_ss u (updatePartialCandle e2 sym last) id
    have h5 : storeOf (executeOrder u (updatePartialCandle e2 sym last) id) sym = storeOf (updatePartialCandle e2 sym last) sym := by
      unfold storeOf; rw [hs4.1]
    have h6 : storeOf e2 sym = storeOf e sym := by unfold storeOf; rw [hs1.1]
    rw [h5, r1, ← h6]
    exact List.dropLast_append_getLast? last (List.mem_of_getLast? hl |> fun _ => hl)
  repeat' split
  all_goals first
    | (with_reducible rfl)
    | (rename_i w' h _ last hl
       exact htail _ _ last ⟨rfl, rfl⟩ hl)
    | (exact hfail _ _ ⟨rfl, rfl⟩)

/-- at the end of a minute's matching the symbol's stored 1m rows are the rows stored before the minute followed by the
    WHOLE minute (unless the run has been stopped by an error) -/
theorem simulateMinute_short (fuel : Nat) (e : Engine M) (sym : Nat) (real : Candle) (t0 : Int) (P : List Candle)
    (hal : AlignedCfg e.cfg sym t0) (hp : EPre e sym t0 real.ts P) :
    (storeOf (simulateMinute u fuel e sym real) sym).short = P ++ [real] ∨ (simulateMinute u fuel e sym real).err.isSome := by
  unfold simulateMinute
  dsimp only
  split
  · right; assumption
  · have h := matchLoop_keeps_pre u fuel e sym real
      ((fun (e : Engine M) (c : Candle) => if (executingOrders e sym c).length > 1 then sortExecutionOrders e (executingOrders e sym c) [c] else executingOrders e sym c) e real)
      (fun (e : Engine M) (c : Candle) => if (executingOrders e sym c).length > 1 then sortExecutionOrders e (executingOrders e sym c) [c] else executingOrders e sym c) false t0 P hal hp
    revert h
    generalize matchLoop u fuel e sym real _ _ false = p
    intro h
    obtain ⟨e1, c'⟩ := p
    dsimp only at h ⊢
    obtain ⟨hp1, hcfg1⟩ := h
    split
    · right; assumption
    · left
      have hal1 : AlignedCfg e1.cfg sym t0 := by rw [hcfg1]; exact hal
      have hp2 := replace_last_keeps_pre e1 sym real t0 real.ts P hal1 hp1 rfl
      have hs3 : StoreFrame.SSame (addCandle e1 sym 1 real) (setCurrentPrice (addCandle e1 sym 1 real) sym real.c) := ⟨rfl, rfl⟩
      have hp3 := EPre.of_same hs3 hp2
      have hal3 : AlignedCfg (setCurrentPrice (addCandle e1 sym 1 real) sym real.c).cfg sym t0 := hal1
      rw [checkLiquidation_short u (setCurrentPrice (addCandle e1 sym 1 real) sym real.c) sym real t0 real.ts P hal3 hp3]
      -- the rows after REPLACE LAST with the whole minute
      obtain ⟨l, hl, _⟩ := hp3.last
      have hst3 : storeOf (setCurrentPrice (addCandle e1 sym 1 real) sym real.c) sym = storeOf (addCandle e1 sym 1 real) sym := rfl
      have hd := hp3.pfx
      rw [hst3] at hd hl ⊢
      have hst := StoreFrame.storeOf_addCandle e1 sym 1 real hp1.hs
      simp only [if_true] at hst
      -- the last row is `real`: REPLACE LAST wrote it
      obtain ⟨l1, hl1, hl1ts⟩ := hp1.last
      have hadd : Store.addCandle (storeOf e1 sym).short real = (storeOf e1 sym).short.dropLast ++ [real] := by
        unfold Store.addCandle
        have hne : (storeOf e1 sym).short ≠ [] := by intro h0; rw [h0] at hl1; simp at hl1
        have hpos : 0 < (storeOf e1 sym).short.length := List.length_pos_iff.mpr hne
        have hl1e : l1 = (storeOf e1 sym).short[(storeOf e1 sym).short.length - 1] := by
          rw [List.getLast?_eq_getElem?, List.getElem?_eq_getElem (by omega)] at hl1
          injection hl1 with h; exact h.symm
        have hlts' : l1.ts = t0 + 60000 * (((storeOf e1 sym).short.length - 1 : Nat) : Int) := by
          rw [hl1e]; exact hp1.spaced _ (by omega)
        have hr0 : ¬ real.ts = 0 := by
          rw [← hl1ts, hlts']
          have : (0 : Int) ≤ (((storeOf e1 sym).short.length - 1 : Nat) : Int) := Int.natCast_nonneg _
          have := hal.1; omega
        have hngt : ¬ real.ts > real.ts := lt_irrefl _
        simp only [hr0, if_false, hl1, hl1ts, hngt, if_true]
      rw [hst, hadd, hp1.pfx]

/-! ### a whole iteration of the normal simulator for one symbol: `StoreInv` from iteration to iteration

`EInv e sym t0 rows`: between iterations the symbol's stored minutes are exactly `rows` (evenly spaced from `t0`) and
every bigger timeframe satisfies `StoreInv`.  One iteration — NEW MINUTE, the minute's matching with any number of
fills, the liquidation check, CLOSE WINDOW for every timeframe whose window ends — leads from `EInv … rows` to
`EInv … (rows ++ [the minute])`, for every strategy, unless the run was stopped by an error. -/

structure EInv (e : Engine M) (sym : Nat) (t0 : Int) (rows : List Candle) : Prop where
  hs : sym < e.stores.length
  short : (storeOf e sym).short = rows
  spaced : Spaced t0 rows
  inv : ∀ m ∈ tfsRaw e.cfg sym, StoreInv m rows (longOf (storeOf e sym) m)

/-- NEW MINUTE: storing the next minute of the session turns `EInv` into `EPre` -/
theorem new_minute_gives_pre (e : Engine M) (sym : Nat) (c : Candle) (t0 : Int) (rows : List Candle)
    (hal : AlignedCfg e.cfg sym t0) (hi : EInv e sym t0 rows) (hc : c.ts = t0 + 60000 * (rows.length : Int)) :
    EPre (addCandle e sym 1 c) sym t0 c.ts rows := by
  have hst := StoreFrame.storeOf_addCandle e sym 1 c hi.hs
  simp only [if_true] at hst
  have hc0 : ¬ c.ts = 0 := by
    rw [hc]; have : (0 : Int) ≤ (rows.length : Int) := Int.natCast_nonneg _
    have := hal.1; omega
  have hadd : Store.addCandle (storeOf e sym).short c = rows ++ [c] := by
    rw [hi.short]
    unfold Store.addCandle
    simp only [hc0, if_false]
    cases hl : rows.getLast? with
    | none => rfl
    | some last =>
      have hne : rows ≠ [] := by intro h0; rw [h0] at hl; simp at hl
      have hpos : 0 < rows.length := List.length_pos_iff.mpr hne
      have hle : last = rows[rows.length - 1] := by
        rw [List.getLast?_eq_getElem?, List.getElem?_eq_getElem (by omega)] at hl
        injection hl with h; exact h.symm
      have hlts : last.ts = t0 + 60000 * ((rows.length - 1 : Nat) : Int) := by rw [hle]; exact hi.spaced _ (by omega)
      have hgt : c.ts > last.ts := by
        rw [hc, hlts]
        have : ((rows.length - 1 : Nat) : Int) < (rows.length : Int) := by exact_mod_cast (by omega : rows.length - 1 < rows.length)
        omega
      simp only [hgt, if_true]
  rw [hadd] at hst
  refine ⟨by rw [StoreFrame.stores_length_addCandle]; exact hi.hs, ?_, ?_, ?_, ?_⟩
  · rw [hst]; show (rows ++ [c]).dropLast = rows; rw [List.dropLast_concat]
  · rw [hst]
    intro j hj
    show (rows ++ [c])[j].ts = _
    by_cases hjl : j < rows.length
    · rw [List.getElem_append_left hjl]; exact hi.spaced j hjl
    · have hj2 : j < (rows ++ [c]).length := hj
      have hj' : j = rows.length := by simp at hj2; omega
      subst hj'
      rw [List.getElem_append_right (by omega)]
      simp [hc]
  · rw [hst]; exact ⟨c, by simp, rfl⟩
  · intro m hm
    rw [hst]
    have hm' : m ∈ tfsRaw e.cfg sym := hm
    have := pre_of_new_minute m rows (longOf (storeOf e sym) m) c (hal.2 m hm').1 (hi.inv m hm')
    exact this

/-- with exactly `m` rows the complete-candle generator and the forming-candle generator agree -/
theorem generate_complete_eq (m : Nat) (cs : List Candle) (h : cs.length = m) :
    generateCandle m cs False = generate m cs := by
  unfold generate generateCandle
  have : lenR cs = natR m := by unfold lenR natR; rw [h]
  simp [this]

/-- `xs[a:b]` for `a ≤ b ≤ len(xs)` -/
theorem slice_nat {α} (xs : List α) (a b : Nat) (hab : a ≤ b) (hb : b ≤ xs.length) :
    Py.slice xs (some (a : Int)) (some (b : Int)) = (xs.take b).drop a := by
  unfold Py.slice Py.startIdx Py.stopIdx Py.clampIdx
  have ha0 : ¬ ((a : Int) < 0) := by omega
  have hb0 : ¬ ((b : Int) < 0) := by omega
  simp only [ha0, hb0, if_false, Int.toNat_natCast]
  by_cases h1 : a < xs.length
  · by_cases h2 : b < xs.length
    · simp only [h1, h2, if_true]
      rw [List.drop_take]
    · have : b = xs.length := by omega
      subst this
      simp only [h1, if_true, lt_irrefl, if_false, List.take_length]
      rw [List.take_of_length_le (by simp)]
  · have hae : a = xs.length := by omega
    have hbe : b = xs.length := by omega
    subst hae
    simp [hbe]

/-- CLOSE WINDOW for one timeframe on a store whose 1m rows are `rows'` (`i + 1` of them, the first `i + 1` rows of the
    normalised input `cs'`): the timeframe satisfies `StoreInv` afterwards — a completed window gets its candle, a forming
    one needs none — the 1m rows and the other timeframes are untouched -/
theorem close_step_inv (e : Engine M) (sym i tf : Nat) (cs' rows' : List Candle) (t0 : Int)
    (hs : sym < e.stores.length) (htf : 0 < tf) (htf1 : tf ≠ 1) (ht0 : 0 < t0)
    (hshort : (storeOf e sym).short = rows') (hlen : rows'.length = i + 1) (hcs : cs'.take (i + 1) = rows')
    (hsp : Spaced t0 rows') (hpre : PreInv tf rows' (longOf (storeOf e sym) tf)) :
    let e' := (if (i + 1) % tf = 0 then
        match generateCandle tf (Py.slice cs' (some ((i : Int) - ((tf : Int) - 1))) (some ((i : Int) + 1))) False with
        | .ok g => addCandle e sym tf g
        | .error k => fail e k
      else e)
    sym < e'.stores.length ∧ (storeOf e' sym).short = rows' ∧ StoreInv tf rows' (longOf (storeOf e' sym) tf) ∧
      (∀ m', m' ≠ tf → longOf (storeOf e' sym) m' = longOf (storeOf e sym) m') ∧ e'.cfg = e.cfg ∧
      (e.err.isSome → e'.err.isSome) := by
  have hne : rows' ≠ [] := by intro h; rw [h] at hlen; simp at hlen
  by_cases hb : (i + 1) % tf = 0
  · simp only [hb, if_true]
    have hb' : rows'.length % tf = 0 := by rw [hlen]; exact hb
    obtain ⟨hq, hfull⟩ := StoreProto.k0_of_boundary tf rows' htf hne hb'
    have hk : StoreProto.k0 tf rows' * tf = i + 1 - tf := by
      rw [hlen] at hfull
      have : (StoreProto.k0 tf rows' + 1) * tf = StoreProto.k0 tf rows' * tf + tf := by rw [Nat.add_mul, Nat.one_mul]
      omega
    have htle : tf ≤ i + 1 := by
      rw [hlen] at hfull
      have : (StoreProto.k0 tf rows' + 1) * tf = StoreProto.k0 tf rows' * tf + tf := by rw [Nat.add_mul, Nat.one_mul]
      omega
    have hlencs : i + 1 ≤ cs'.length := by
      have := congrArg List.length hcs
      rw [List.length_take, hlen] at this; omega
    have hsl : Py.slice cs' (some ((i : Int) - ((tf : Int) - 1))) (some ((i : Int) + 1)) = rows'.drop (StoreProto.k0 tf rows' * tf) := by
      have e1 : ((i : Int) - ((tf : Int) - 1)) = ((i + 1 - tf : Nat) : Int) := by omega
      have e2 : ((i : Int) + 1) = ((i + 1 : Nat) : Int) := by omega
      rw [e1, e2, slice_nat cs' (i + 1 - tf) (i + 1) (by omega) hlencs, hcs, hk]
    rw [hsl]
    have hdl : (rows'.drop (StoreProto.k0 tf rows' * tf)).length = tf := by
      rw [List.length_drop, hk, hlen]; omega
    rw [generate_complete_eq tf _ hdl]
    have hdne : rows'.drop (StoreProto.k0 tf rows' * tf) ≠ [] := by
      intro h0; rw [h0] at hdl; simp at hdl; omega
    obtain ⟨g, _, hagg, _, _⟩ := StoreProto.aggregate_some _ hdne
    have hgen : generate tf (rows'.drop (StoreProto.k0 tf rows' * tf)) = .ok g := by rw [generate_is_aggregate, hagg]
    rw [hgen]
    simp only []
    have hst := StoreFrame.storeOf_addCandle e sym tf g hs
    simp only [htf1, if_false] at hst
    refine ⟨by rw [StoreFrame.stores_length_addCandle]; exact hs, by rw [hst]; exact hshort, ?_, ?_, rfl, fun h => h⟩
    · rw [hst, StoreFrame.longOf_setLong_same]
      exact inv_of_window_candle tf rows' _ t0 g htf hne ht0 hsp hpre hgen
    · intro m' hm'; rw [hst]; exact StoreFrame.longOf_setLong_other _ tf m' _ hm'
  · simp only [hb, if_false]
    have hb' : rows'.length % tf ≠ 0 := by rw [hlen]; exact hb
    refine ⟨hs, hshort, inv_of_pre_forming tf rows' _ htf hb' hpre, ?_, ?_, ?_⟩
    all_goals first | trivial | (intros; trivial) | (intros; rfl) | (intro h; exact h)

/-- the CLOSE WINDOW loop of an iteration (over any list of the symbol's timeframes, repetitions allowed) -/
theorem close_fold_inv (sym i : Nat) (cs' rows' : List Candle) (t0 : Int) (ht0 : 0 < t0) (T : List Nat)
    (hT : ∀ m ∈ T, 0 < m ∧ m ≠ 1) (hlen : rows'.length = i + 1) (hcs : cs'.take (i + 1) = rows') (hsp : Spaced t0 rows')
    (L : List Nat) (hL : ∀ m ∈ L, m ∈ T) :
    ∀ (e : Engine M) (D : List Nat), sym < e.stores.length → (storeOf e sym).short = rows' →
      (∀ m ∈ T, PreInv m rows' (longOf (storeOf e sym) m)) → (∀ m ∈ D, StoreInv m rows' (longOf (storeOf e sym) m)) →
      sym < (L.foldl (fun (e : Engine M) (tf : Nat) =>
          if (i + 1) % tf = 0 then
            match generateCandle tf (Py.slice cs' (some ((i : Int) - ((tf : Int) - 1))) (some ((i : Int) + 1))) False with
            | .ok g => addCandle e sym tf g
            | .error k => fail e k
          else e) e).stores.length ∧
      (storeOf (L.foldl (fun (e : Engine M) (tf : Nat) =>
          if (i + 1) % tf = 0 then
            match generateCandle tf (Py.slice cs' (some ((i : Int) - ((tf : Int) - 1))) (some ((i : Int) + 1))) False with
            | .ok g => addCandle e sym tf g
            | .error k => fail e k
          else e) e) sym).short = rows' ∧
      (∀ m ∈ D ++ L, StoreInv m rows' (longOf (storeOf (L.foldl (fun (e : Engine M) (tf : Nat) =>
          if (i + 1) % tf = 0 then
            match generateCandle tf (Py.slice cs' (some ((i : Int) - ((tf : Int) - 1))) (some ((i : Int) + 1))) False with
            | .ok g => addCandle e sym tf g
            | .error k => fail e k
          else e) e) sym) m)) ∧
      (L.foldl (fun (e : Engine M) (tf : Nat) =>
          if (i + 1) % tf = 0 then
            match generateCandle tf (Py.slice cs' (some ((i : Int) - ((tf : Int) - 1))) (some ((i : Int) + 1))) False with
            | .ok g => addCandle e sym tf g
            | .error k => fail e k
          else e) e).cfg = e.cfg ∧
      (e.err.isSome → (L.foldl (fun (e : Engine M) (tf : Nat) =>
          if (i + 1) % tf = 0 then
            match generateCandle tf (Py.slice cs' (some ((i : Int) - ((tf : Int) - 1))) (some ((i : Int) + 1))) False with
            | .ok g => addCandle e sym tf g
            | .error k => fail e k
          else e) e).err.isSome) := by
  induction L with
  | nil => intro e D hs hsh _ hD; exact ⟨hs, hsh, by simpa using hD, rfl, fun h => h⟩
  | cons m rest ih =>
    intro e D hs hsh hpre hD
    have hmT : m ∈ T := hL m List.mem_cons_self
    obtain ⟨hm, hm1⟩ := hT m hmT
    have hne : rows' ≠ [] := by intro h; rw [h] at hlen; simp at hlen
    obtain ⟨s1, s2, s3, s4, s5, s6⟩ := close_step_inv e sym i m cs' rows' t0 hs hm hm1 ht0 hsh hlen hcs hsp (hpre m hmT)
    simp only [List.foldl_cons]
    revert s1 s2 s3 s4 s5 s6
    generalize (if (i + 1) % m = 0 then
        match generateCandle m (Py.slice cs' (some ((i : Int) - ((m : Int) - 1))) (some ((i : Int) + 1))) False with
        | .ok g => addCandle e sym m g
        | .error k => fail e k
      else e) = e1
    intro s1 s2 s3 s4 s5 s6
    have hpre' : ∀ m' ∈ T, PreInv m' rows' (longOf (storeOf e1 sym) m') := by
      intro m' hm'
      by_cases h : m' = m
      · subst h; exact pre_of_inv m' rows' _ (hT m' hm').1 hne s3
      · rw [s4 m' h]; exact hpre m' hm'
    have hD' : ∀ m' ∈ D ++ [m], StoreInv m' rows' (longOf (storeOf e1 sym) m') := by
      intro m' hm'
      by_cases h : m' = m
      · subst h; exact s3
      · rw [s4 m' h]
        rcases List.mem_append.mp hm' with h1 | h1
        · exact hD m' h1
        · exact absurd (List.mem_singleton.mp h1) h
    obtain ⟨r1, r2, r3, r4, r5⟩ := ih (fun x hx => hL x (List.mem_cons_of_mem _ hx)) e1 (D ++ [m]) s1 s2 hpre' hD'
    refine ⟨r1, r2, ?_, by rw [r4, s5], fun h => r5 (s6 h)⟩
    intro m' hm'
    apply r3 m'
    simp only [List.mem_append, List.mem_cons, List.mem_singleton, List.not_mem_nil, or_false] at hm' ⊢
    rcases hm' with h | h | h
    · exact Or.inl (Or.inl h)
    · exact Or.inl (Or.inr h)
    · exact Or.inr h

/-- CLOSE WINDOW for one timeframe on a store whose 1m rows are `rows'` (`i + 1` of them, the first `i + 1` rows of the
    normalised input `cs'`; fast simulator, chunk of `step` rows): the timeframe satisfies `StoreInv` afterwards — a completed window gets its candle, a forming
    one needs none — the 1m rows and the other timeframes are untouched -/
theorem close_step_skip (e : Engine M) (sym i step tf : Nat) (cs' rows' : List Candle) (t0 : Int)
    (hstep : 0 < step) (hs : sym < e.stores.length) (htf : 0 < tf) (htf1 : tf ≠ 1) (ht0 : 0 < t0)
    (hshort : (storeOf e sym).short = rows') (hlen : rows'.length = i + step) (hcs : cs'.take (i + step) = rows')
    (hsp : Spaced t0 rows') (hpre : PreInv tf rows' (longOf (storeOf e sym) tf)) :
    let e' := (if (i + step) % tf = 0 then
        match generateCandle tf (Py.slice cs' (some ((i : Int) - (tf : Int) + step)) (some ((i : Int) + step))) False with
        | .ok g => addCandle e sym tf g
        | .error k => fail e k
      else e)
    sym < e'.stores.length ∧ (storeOf e' sym).short = rows' ∧ StoreInv tf rows' (longOf (storeOf e' sym) tf) ∧
      (∀ m', m' ≠ tf → longOf (storeOf e' sym) m' = longOf (storeOf e sym) m') ∧ e'.cfg = e.cfg ∧
      (e.err.isSome → e'.err.isSome) := by
  have hne : rows' ≠ [] := by intro h; rw [h] at hlen; simp at hlen; omega
  by_cases hb : (i + step) % tf = 0
  · simp only [hb, if_true]
    have hb' : rows'.length % tf = 0 := by rw [hlen]; exact hb
    obtain ⟨hq, hfull⟩ := StoreProto.k0_of_boundary tf rows' htf hne hb'
    have hk : StoreProto.k0 tf rows' * tf = i + step - tf := by
      rw [hlen] at hfull
      have : (StoreProto.k0 tf rows' + 1) * tf = StoreProto.k0 tf rows' * tf + tf := by rw [Nat.add_mul, Nat.one_mul]
      omega
    have htle : tf ≤ i + step := by
      rw [hlen] at hfull
      have : (StoreProto.k0 tf rows' + 1) * tf = StoreProto.k0 tf rows' * tf + tf := by rw [Nat.add_mul, Nat.one_mul]
      omega
    have hlencs : i + step ≤ cs'.length := by
      have := congrArg List.length hcs
      rw [List.length_take, hlen] at this; omega
    have hsl : Py.slice cs' (some ((i : Int) - (tf : Int) + step)) (some ((i : Int) + step)) = rows'.drop (StoreProto.k0 tf rows' * tf) := by
      have e1 : ((i : Int) - (tf : Int) + (step : Int)) = ((i + step - tf : Nat) : Int) := by omega
      have e2 : ((i : Int) + (step : Int)) = ((i + step : Nat) : Int) := by omega
      rw [e1, e2, slice_nat cs' (i + step - tf) (i + step) (by omega) hlencs, hcs, hk]
    rw [hsl]
    have hdl : (rows'.drop (StoreProto.k0 tf rows' * tf)).length = tf := by
      rw [List.length_drop, hk, hlen]; omega
    rw [generate_complete_eq tf _ hdl]
    have hdne : rows'.drop (StoreProto.k0 tf rows' * tf) ≠ [] := by
      intro h0; rw [h0] at hdl; simp at hdl; omega
    obtain ⟨g, _, hagg, _, _⟩ := StoreProto.aggregate_some _ hdne
    have hgen : generate tf (rows'.drop (StoreProto.k0 tf rows' * tf)) = .ok g := by rw [generate_is_aggregate, hagg]
    rw [hgen]
    simp only []
    have hst := StoreFrame.storeOf_addCandle e sym tf g hs
    simp only [htf1, if_false] at hst
    refine ⟨by rw [StoreFrame.stores_length_addCandle]; exact hs, by rw [hst]; exact hshort, ?_, ?_, rfl, fun h => h⟩
    · rw [hst, StoreFrame.longOf_setLong_same]
      exact inv_of_window_candle tf rows' _ t0 g htf hne ht0 hsp hpre hgen
    · intro m' hm'; rw [hst]; exact StoreFrame.longOf_setLong_other _ tf m' _ hm'
  · simp only [hb, if_false]
    have hb' : rows'.length % tf ≠ 0 := by rw [hlen]; exact hb
    refine ⟨hs, hshort, inv_of_pre_forming tf rows' _ htf hb' hpre, ?_, ?_, ?_⟩
    all_goals first | trivial | (intros; trivial) | (intros; rfl) | (intro h; exact h)

/-- the CLOSE WINDOW loop of an iteration (over any list of the symbol's timeframes, repetitions allowed) -/
theorem close_fold_skip (sym i step : Nat) (hstep : 0 < step) (cs' rows' : List Candle) (t0 : Int) (ht0 : 0 < t0) (T : List Nat)
    (hT : ∀ m ∈ T, 0 < m ∧ m ≠ 1) (hlen : rows'.length = i + step) (hcs : cs'.take (i + step) = rows') (hsp : Spaced t0 rows')
    (L : List Nat) (hL : ∀ m ∈ L, m ∈ T) :
    ∀ (e : Engine M) (D : List Nat), sym < e.stores.length → (storeOf e sym).short = rows' →
      (∀ m ∈ T, PreInv m rows' (longOf (storeOf e sym) m)) → (∀ m ∈ D, StoreInv m rows' (longOf (storeOf e sym) m)) →
      sym < (L.foldl (fun (e : Engine M) (tf : Nat) =>
          if (i + step) % tf = 0 then
            match generateCandle tf (Py.slice cs' (some ((i : Int) - (tf : Int) + step)) (some ((i : Int) + step))) False with
            | .ok g => addCandle e sym tf g
            | .error k => fail e k
          else e) e).stores.length ∧
      (storeOf (L.foldl (fun (e : Engine M) (tf : Nat) =>
          if (i + step) % tf = 0 then
            match generateCandle tf (Py.slice cs' (some ((i : Int) - (tf : Int) + step)) (some ((i : Int) + step))) False with
            | .ok g => addCandle e sym tf g
            | .error k => fail e k
          else e) e) sym).short = rows' ∧
      (∀ m ∈ D ++ L, StoreInv m rows' (longOf (storeOf (L.foldl (fun (e : Engine M) (tf : Nat) =>
          if (i + step) % tf = 0 then
            match generateCandle tf (Py.slice cs' (some ((i : Int) - (tf : Int) + step)) (some ((i : Int) + step))) False with
            | .ok g => addCandle e sym tf g
            | .error k => fail e k
          else e) e) sym) m)) ∧
      (L.foldl (fun (e : Engine M) (tf : Nat) =>
          if (i + step) % tf = 0 then
            match generateCandle tf (Py.slice cs' (some ((i : Int) - (tf : Int) + step)) (some ((i : Int) + step))) False with
            | .ok g => addCandle e sym tf g
            | .error k => fail e k
          else e) e).cfg = e.cfg ∧
      (e.err.isSome → (L.foldl (fun (e : Engine M) (tf : Nat) =>
          if (i + step) % tf = 0 then
            match generateCandle tf (Py.slice cs' (some ((i : Int) - (tf : Int) + step)) (some ((i : Int) + step))) False with
            | .ok g => addCandle e sym tf g
            | .error k => fail e k
          else e) e).err.isSome) := by
  induction L with
  | nil => intro e D hs hsh _ hD; exact ⟨hs, hsh, by simpa using hD, rfl, fun h => h⟩
  | cons m rest ih =>
    intro e D hs hsh hpre hD
    have hmT : m ∈ T := hL m List.mem_cons_self
    obtain ⟨hm, hm1⟩ := hT m hmT
    have hne : rows' ≠ [] := by intro h; rw [h] at hlen; simp at hlen; omega
    obtain ⟨s1, s2, s3, s4, s5, s6⟩ := close_step_skip e sym i step m cs' rows' t0 hstep hs hm hm1 ht0 hsh hlen hcs hsp (hpre m hmT)
    simp only [List.foldl_cons]
    revert s1 s2 s3 s4 s5 s6
    generalize (if (i + step) % m = 0 then
        match generateCandle m (Py.slice cs' (some ((i : Int) - (m : Int) + step)) (some ((i : Int) + step))) False with
        | .ok g => addCandle e sym m g
        | .error k => fail e k
      else e) = e1
    intro s1 s2 s3 s4 s5 s6
    have hpre' : ∀ m' ∈ T, PreInv m' rows' (longOf (storeOf e1 sym) m') := by
      intro m' hm'
      by_cases h : m' = m
      · subst h; exact pre_of_inv m' rows' _ (hT m' hm').1 hne s3
      · rw [s4 m' h]; exact hpre m' hm'
    have hD' : ∀ m' ∈ D ++ [m], StoreInv m' rows' (longOf (storeOf e1 sym) m') := by
      intro m' hm'
      by_cases h : m' = m
      · subst h; exact s3
      · rw [s4 m' h]
        rcases List.mem_append.mp hm' with h1 | h1
        · exact hD m' h1
        · exact absurd (List.mem_singleton.mp h1) h
    obtain ⟨r1, r2, r3, r4, r5⟩ := ih (fun x hx => hL x (List.mem_cons_of_mem _ hx)) e1 (D ++ [m]) s1 s2 hpre' hD'
    refine ⟨r1, r2, ?_, by rw [r4, s5], fun h => r5 (s6 h)⟩
    intro m' hm'
    apply r3 m'
    simp only [List.mem_append, List.mem_cons, List.mem_singleton, List.not_mem_nil, or_false] at hm' ⊢
    rcases hm' with h | h | h
    · exact Or.inl (Or.inl h)
    · exact Or.inl (Or.inr h)
    · exact Or.inr h

theorem mem_eraseDups_nat (l : List Nat) (m : Nat) : m ∈ l.eraseDups ↔ m ∈ l := by
  induction hn : l.length using Nat.strong_induction_on generalizing l with
  | _ n ih =>
    cases l with
    | nil => simp
    | cons a as =>
      rw [List.eraseDups_cons]
      generalize hf : List.filter _ as = fl
      have hlen : fl.length < n := by
        rw [← hn, ← hf]; simp only [List.length_cons]
        exact Nat.lt_succ_of_le (List.length_filter_le _ _)
      have hmem : m ∈ fl ↔ m ∈ as ∧ m ≠ a := by
        rw [← hf, List.mem_filter]; simp
      rw [List.mem_cons, ih _ hlen fl rfl, hmem, List.mem_cons]
      constructor
      · rintro (h | ⟨h, _⟩)
        · exact Or.inl h
        · exact Or.inr h
      · rintro (h | h)
        · exact Or.inl h
        · by_cases hma : m = a
          · exact Or.inl hma
          · exact Or.inr ⟨h, hma⟩

/-- the CLOSE WINDOW loop keeps an error flag that is already set -/
theorem close_fold_err (sym i : Nat) (cs' : List Candle) (L : List Nat) (e : Engine M) (h : e.err.isSome) :
    (L.foldl (fun (e : Engine M) (tf : Nat) =>
        if (i + 1) % tf = 0 then
          match generateCandle tf (Py.slice cs' (some ((i : Int) - ((tf : Int) - 1))) (some ((i : Int) + 1))) False with
          | .ok g => addCandle e sym tf g
          | .error k => fail e k
        else e) e).err.isSome := by
  induction L generalizing e with
  | nil => exact h
  | cons m rest ih =>
    simp only [List.foldl_cons]
    apply ih
    split
    · split
      · exact h
      · unfold fail; rw [if_pos h]; exact h
    · exact h

/-- ONE ITERATION OF THE NORMAL SIMULATOR FOR ONE SYMBOL, every strategy: if before the iteration the symbol's store holds
    the first `i` (normalised) input rows and satisfies `StoreInv` for every bigger timeframe, then after it — NEW MINUTE,
    any number of fills with their hooks, the liquidation check, CLOSE WINDOW — it holds the first `i + 1` rows and
    satisfies `StoreInv` again, unless the run was stopped by an error. -/
theorem symStep_inv (fuel i : Nat) (e : Engine M) (inputs : List (List Candle)) (sym : Nat) (t0 : Int)
    (hal : AlignedCfg e.cfg sym t0)
    (hin : ∀ j (h : j < (inputs.getD sym []).length), (inputs.getD sym [])[j].ts = t0 + 60000 * (j : Int))
    (hil : i < (inputs.getD sym []).length)
    (hi : EInv e sym t0 ((inputs.getD sym []).take i)) :
    (symStep u fuel i (e, inputs) sym).1.err.isSome ∨
    (EInv (symStep u fuel i (e, inputs) sym).1 sym t0 (((symStep u fuel i (e, inputs) sym).2.getD sym []).take (i + 1)) ∧
     (symStep u fuel i (e, inputs) sym).1.cfg = e.cfg ∧
     ((symStep u fuel i (e, inputs) sym).2.getD sym []).length = (inputs.getD sym []).length ∧
     ∀ j (h : j < ((symStep u fuel i (e, inputs) sym).2.getD sym []).length),
       ((symStep u fuel i (e, inputs) sym).2.getD sym [])[j].ts = t0 + 60000 * (j : Int)) := by
  unfold symStep
  dsimp only
  split
  · left; assumption
  · generalize hcs : inputs.getD sym [] = cs at *
    -- the row of this iteration, normalised
    have hrow : ∃ c, fixedRow cs i = some c ∧ c.ts = t0 + 60000 * (i : Int) := by
      unfold fixedRow
      rw [List.getElem?_eq_getElem hil]
      dsimp only
      by_cases h0 : i = 0
      · exact ⟨cs[i], by simp [h0], hin i hil⟩
      · simp only [h0, if_false]
        have hlt : i - 1 < cs.length := by omega
        rw [List.getElem?_eq_getElem hlt]
        refine ⟨_, rfl, ?_⟩
        rcases fix_jump_spec cs[i - 1] cs[i] with h | h
        · rw [h.1]; exact hin i hil
        · rw [h.2]; exact hin i hil
    obtain ⟨c, hfr, hcts⟩ := hrow
    rw [hfr]
    dsimp only
    -- the input array of the symbol after the normalisation of row i
    have hsyml : sym < inputs.length := by
      by_contra hge
      have : inputs.getD sym [] = [] := by
        rw [List.getD_eq_getElem?_getD, List.getElem?_eq_none (by omega)]; rfl
      rw [hcs] at this; rw [this] at hil; simp at hil
    have hget : (inputs.set sym (cs.set i c)).getD sym [] = cs.set i c := by
      rw [List.getD_eq_getElem?_getD, List.getElem?_set_self (by omega)]; rfl
    simp only [hget]
    have htake : (cs.set i c).take (i + 1) = cs.take i ++ [c] := by
      rw [List.take_succ_eq_append_getElem (by simpa using hil), List.take_set_of_le (le_refl i), List.getElem_set_self]
    have hlen1 : (cs.take i).length = i := by rw [List.length_take]; omega
    -- NEW MINUTE, the minute
    have hp1 := new_minute_gives_pre e sym c t0 (cs.take i) hal hi (by rw [hlen1]; exact hcts)
    have hal1 : AlignedCfg (addCandle e sym 1 c).cfg sym t0 := hal
    obtain ⟨hp2, hcfg2⟩ := simulateMinute_keeps_pre u fuel (addCandle e sym 1 c) sym c t0 (cs.take i) hal1 hp1
    have hsh := simulateMinute_short u fuel (addCandle e sym 1 c) sym c t0 (cs.take i) hal1 hp1
    have hcfg2' : (simulateMinute u fuel (addCandle e sym 1 c) sym c).cfg = e.cfg := hcfg2
    revert hp2 hsh hcfg2'
    generalize simulateMinute u fuel (addCandle e sym 1 c) sym c = e2
    intro hp2 hsh hcfg2'
    rcases hsh with hshort | herr
    · right
      have hT : ∀ m ∈ tfsRaw e.cfg sym, 0 < m ∧ m ≠ 1 := by
        intro m hm
        refine ⟨(hal.2 m hm).1, ?_⟩
        unfold tfsRaw at hm
        obtain ⟨r, hr, rfl⟩ := List.mem_map.mp hm
        have := (List.mem_filter.mp hr).2
        simp only [decide_eq_true_eq] at this
        exact this.2
      have hsp' : Spaced t0 (cs.take i ++ [c]) := by rw [← hshort]; exact hp2.spaced
      have hpre' : ∀ m ∈ tfsRaw e.cfg sym, PreInv m (cs.take i ++ [c]) (longOf (storeOf e2 sym) m) := by
        intro m hm; rw [← hshort]; exact hp2.pre m (by rw [hcfg2']; exact hm)
      have hL : ∀ m ∈ tfsOf e.cfg sym, m ∈ tfsRaw e.cfg sym := by
        intro m hm; exact (mem_eraseDups_nat _ m).mp hm
      obtain ⟨r1, r2, r3, r4, _⟩ := close_fold_inv sym i (cs.set i c) (cs.take i ++ [c]) t0 hal.1 (tfsRaw e.cfg sym) hT
        (by simp [hlen1]) htake hsp' (tfsOf e.cfg sym) hL e2 [] hp2.hs hshort hpre' (by intro m hm; cases hm)
      have hcfg3 := r4.trans hcfg2'
      refine ⟨⟨r1, by rw [htake]; exact r2, by rw [htake]; exact hsp', ?_⟩, hcfg3, by simp, ?_⟩
      · intro m hm
        rw [htake]
        have hm' : m ∈ tfsRaw e.cfg sym := by
          have := congrArg (fun c => tfsRaw c sym) hcfg3
          rw [← this]; exact hm
        exact r3 m (by rw [List.nil_append]; exact (mem_eraseDups_nat _ m).mpr hm')
      · intro j hj
        have hj' : j < cs.length := by simpa using hj
        by_cases hji : j = i
        · subst hji; simp [hcts]
        · rw [List.getElem_set_ne (by omega)]; exact hin j hj'
    · left; exact close_fold_err sym i _ _ e2 herr

/-! ### the whole run of the normal simulator (single-symbol sessions): `StoreInv` after every iteration -/

theorem EInv.of_same {e e' : Engine M} {sym : Nat} {t0 : Int} {rows : List Candle} (h : StoreFrame.SSame e e')
    (hi : EInv e sym t0 rows) : EInv e' sym t0 rows := by
  obtain ⟨h1, h2⟩ := h
  have hst : storeOf e' sym = storeOf e sym := by unfold storeOf; rw [h1]
  exact ⟨by rw [h1]; exact hi.hs, by rw [hst]; exact hi.short, hi.spaced, by rw [hst, h2]; exact hi.inv⟩

/-- the route step of an iteration does nothing on a run that has been stopped by an error (the flag stays set) -/
theorem routesStep_err (fuel : Nat) (e : Engine M) (i b : Nat) (h : e.err.isSome) :
    (routesStep u fuel e i b).err.isSome := by
  unfold routesStep
  dsimp only
  have h2 : ((List.range e.cfg.routes.length).foldl (fun (e : Engine M) r =>
      if e.err.isSome then e else
      { (if (routeOf e r).tf = 1 ∨ b % (routeOf e r).tf = 0 then executeStrategy u fuel e r else e) with
        w := Acc.updateActive (if (routeOf e r).tf = 1 ∨ b % (routeOf e r).tf = 0 then executeStrategy u fuel e r else e).w (routeOf e r).sym }) e) = e := by
    generalize List.range e.cfg.routes.length = l
    induction l with
    | nil => rfl
    | cons r rest ih => simp only [List.foldl_cons, h, if_true]; exact ih
  rw [h2]
  have h3 : (executePendingMarketOrders u fuel e).err.isSome := by
    unfold executePendingMarketOrders
    split
    · exact h
    · cases fuel with
      | zero => unfold executePendingMarketOrders.go; unfold fail; rw [if_pos h]; exact h
      | succ f => unfold executePendingMarketOrders.go; rw [if_pos h]; exact h
  split
  · exact h3
  · exact h3

/-- ONE ITERATION OF THE NORMAL SIMULATOR (single-symbol session, any number of timeframes, every strategy): from
    `EInv` with the first `i` rows to `EInv` with the first `i + 1` rows, or the run has been stopped by an error. -/
theorem stepAt_inv (fuel i : Nat) (e : Engine M) (inputs : List (List Candle)) (t0 : Int)
    (hn : e.cfg.nsym = 1) (hal : AlignedCfg e.cfg 0 t0)
    (hin : ∀ j (h : j < (inputs.getD 0 []).length), (inputs.getD 0 [])[j].ts = t0 + 60000 * (j : Int))
    (hil : i < (inputs.getD 0 []).length)
    (hi : EInv e 0 t0 ((inputs.getD 0 []).take i)) :
    (stepAt u fuel inputs e i).1.err.isSome ∨
    (EInv (stepAt u fuel inputs e i).1 0 t0 (((stepAt u fuel inputs e i).2.getD 0 []).take (i + 1)) ∧
     (stepAt u fuel inputs e i).1.cfg = e.cfg ∧
     ((stepAt u fuel inputs e i).2.getD 0 []).length = (inputs.getD 0 []).length ∧
     ∀ j (h : j < ((stepAt u fuel inputs e i).2.getD 0 []).length),
       ((stepAt u fuel inputs e i).2.getD 0 [])[j].ts = t0 + 60000 * (j : Int)) := by
  unfold stepAt
  dsimp only
  split
  · left; assumption
  · rw [hn]
    simp only [List.range_one, List.foldl_cons, List.foldl_nil]
    have hs0 : StoreFrame.SSame e { e with time := ((((inputs.getD 0 [])[i]?).map (·.ts)).getD 0) + 60000 } := ⟨rfl, rfl⟩
    have h := symStep_inv u fuel i { e with time := ((((inputs.getD 0 [])[i]?).map (·.ts)).getD 0) + 60000 } inputs 0 t0 hal hin hil
      (EInv.of_same hs0 hi)
    rcases h with herr | ⟨h1, h2, h3, h4⟩
    · left; exact routesStep_err u fuel _ i (i + 1) herr
    · right
      have hs := StoreFrame.routesStep_ss u fuel
        (symStep u fuel i ({ e with time := ((((inputs.getD 0 [])[i]?).map (·.ts)).getD 0) + 60000 }, inputs) 0).1 i (i + 1)
      exact ⟨EInv.of_same hs h1, by rw [hs.2]; exact h2, h3, h4⟩

/-- THE RUN (normal simulator, single-symbol session, every timeframe of the symbol, EVERY strategy): if the session
    starts on a boundary of every timeframe, the input minutes are evenly spaced and the store starts empty with the
    invariant, then after each of the first `n` iterations the stored 1m rows are the first `n` normalised input rows and
    every bigger timeframe satisfies `StoreInv` — hence (`get_candles_spec`, `get_current_candle_spec`) a reader gets
    exactly one candle per started window, each the aggregate of its minutes — or the run has been stopped by an error. -/
theorem runStepN_inv (fuel : Nat) (inputs : List (List Candle)) (e : Engine M) (t0 : Int)
    (hn : e.cfg.nsym = 1) (hal : AlignedCfg e.cfg 0 t0)
    (hin : ∀ j (h : j < (inputs.getD 0 []).length), (inputs.getD 0 [])[j].ts = t0 + 60000 * (j : Int))
    (hi : EInv e 0 t0 []) :
    ∀ n, n ≤ (inputs.getD 0 []).length →
      (runStepN u fuel inputs e n).1.err.isSome ∨
      (EInv (runStepN u fuel inputs e n).1 0 t0 (((runStepN u fuel inputs e n).2.getD 0 []).take n) ∧
       (runStepN u fuel inputs e n).1.cfg = e.cfg ∧
       ((runStepN u fuel inputs e n).2.getD 0 []).length = (inputs.getD 0 []).length ∧
       ∀ j (h : j < ((runStepN u fuel inputs e n).2.getD 0 []).length),
         ((runStepN u fuel inputs e n).2.getD 0 [])[j].ts = t0 + 60000 * (j : Int)) := by
  intro n
  induction n with
  | zero =>
    intro _
    right
    unfold runStepN
    simp only [List.range_zero, List.foldl_nil, List.take_zero]
    have hs : StoreFrame.SSame e (saveDaily { e with time := (((inputs.getD 0 [])[0]?).map (·.ts)).getD 0 }) :=
      StoreFrame.SSame.trans (⟨rfl, rfl⟩ : StoreFrame.SSame e { e with time := (((inputs.getD 0 [])[0]?).map (·.ts)).getD 0 })
        (StoreFrame.saveDaily_ss _)
    refine ⟨EInv.of_same hs hi, hs.2, ?_, hin⟩
    first | trivial | rfl
  | succ k ih =>
    intro hk
    have hstep : runStepN u fuel inputs e (k + 1) =
        stepAt u fuel (runStepN u fuel inputs e k).2 (runStepN u fuel inputs e k).1 k := by
      unfold runStepN
      rw [List.range_succ, List.foldl_append]
      rfl
    rw [hstep]
    rcases ih (by omega) with herr | ⟨h1, h2, h3, h4⟩
    · left
      unfold stepAt
      rw [if_pos herr]; exact herr
    · have := stepAt_inv u fuel k (runStepN u fuel inputs e k).1 (runStepN u fuel inputs e k).2 t0
        (by rw [h2]; exact hn) (by rw [h2]; exact hal) h4 (by rw [h3]; omega) h1
      rcases this with herr | ⟨g1, g2, g3, g4⟩
      · left; exact herr
      · right; exact ⟨g1, by rw [g2, h2], by rw [g3, h3], g4⟩

/-- the premise of `runStepN_inv` is met by every fresh single-symbol engine: an empty store satisfies the invariant -/
theorem init_inv (cfg : Cfg) (kind : Acc.Kind) (balance fee leverage : Rat) (m0 : M) (t0 : Int) (hn : cfg.nsym = 1) :
    EInv (initEngine cfg kind balance fee leverage m0) 0 t0 [] := by
  have hst : storeOf (initEngine cfg kind balance fee leverage m0) 0 = {} := by
    unfold storeOf initEngine; simp [hn]
  refine ⟨by unfold initEngine; simp [hn], by rw [hst], fun j h => absurd h (by simp), ?_⟩
  intro m _
  rw [hst]
  refine ⟨[], ?_, Or.inl rfl⟩
  simp [longOf, visible, AggLemmas.windows_nil]

/-! ### the whole run of the normal simulator, any number of symbols -/

theorem EInv.of_osame {e e' : Engine M} {sym s : Nat} {t0 : Int} {rows : List Candle} (h : StoreFrame.OSame sym e e')
    (hs : s ≠ sym) (hi : EInv e s t0 rows) : EInv e' s t0 rows := by
  obtain ⟨h1, h2, h3⟩ := h
  exact ⟨by rw [h1]; exact hi.hs, by rw [h3 s hs]; exact hi.short, hi.spaced, by rw [h3 s hs, h2]; exact hi.inv⟩

theorem symStep_of_err (fuel i : Nat) (acc : Engine M × List (List Candle)) (sym : Nat) (h : acc.1.err.isSome) :
    symStep u fuel i acc sym = acc := by
  unfold symStep; rw [if_pos h]

/-- the state of all symbols in the middle of an iteration: the first `k` symbols hold `i + 1` rows, the others `i` -/
structure MidInv (e : Engine M) (inputs : List (List Candle)) (t0 : Int) (nsym i k : Nat) (len : Nat → Nat) : Prop where
  done : ∀ s, s < k → s < nsym → EInv e s t0 ((inputs.getD s []).take (i + 1))
  todo : ∀ s, k ≤ s → s < nsym → EInv e s t0 ((inputs.getD s []).take i)
  spaced : ∀ s, s < nsym → ∀ j (h : j < (inputs.getD s []).length), (inputs.getD s [])[j].ts = t0 + 60000 * (j : Int)
  lens : ∀ s, s < nsym → (inputs.getD s []).length = len s

/-- the per-symbol loop of one iteration, for the first `k` symbols -/
theorem symFold_inv (fuel i : Nat) (e : Engine M) (inputs : List (List Candle)) (t0 : Int) (len : Nat → Nat)
    (hal : ∀ s, s < e.cfg.nsym → AlignedCfg e.cfg s t0) (hil : ∀ s, s < e.cfg.nsym → i < len s)
    (h0 : MidInv e inputs t0 e.cfg.nsym i 0 len) :
    ∀ k, k ≤ e.cfg.nsym →
      ((List.range k).foldl (symStep u fuel i) (e, inputs)).1.err.isSome ∨
      (((List.range k).foldl (symStep u fuel i) (e, inputs)).1.cfg = e.cfg ∧
       MidInv ((List.range k).foldl (symStep u fuel i) (e, inputs)).1 ((List.range k).foldl (symStep u fuel i) (e, inputs)).2
         t0 e.cfg.nsym i k len) := by
  intro k
  induction k with
  | zero => intro _; right; exact ⟨rfl, h0⟩
  | succ k ih =>
    intro hk
    rw [List.range_succ, List.foldl_append]
    simp only [List.foldl_cons, List.foldl_nil]
    rcases ih (by omega) with herr | ⟨hcfg, hm⟩
    · left
      rw [symStep_of_err u fuel i _ k herr]; exact herr
    · revert hcfg hm
      generalize (List.range k).foldl (symStep u fuel i) (e, inputs) = acc
      intro hcfg hm
      obtain ⟨e1, ins1⟩ := acc
      dsimp only at hcfg hm ⊢
      have hkn : k < e.cfg.nsym := by omega
      have hlenk : i < (ins1.getD k []).length := by rw [hm.lens k hkn]; exact hil k hkn
      have hstep := symStep_inv u fuel i e1 ins1 k t0 (by rw [hcfg]; exact hal k hkn) (hm.spaced k hkn) hlenk
        (hm.todo k (le_refl k) hkn)
      have hos := StoreFrame.symStep_os u fuel i (e1, ins1) k
      rcases hstep with herr | ⟨g1, g2, g3, g4⟩
      · left; exact herr
      · right
        refine ⟨by rw [g2, hcfg], ⟨?_, ?_, ?_, ?_⟩⟩
        · intro s hs hsn
          by_cases hsk : s = k
          · subst hsk; exact g1
          · have hin := (StoreFrame.symStep_inputs u fuel i (e1, ins1) k s hsk).1
            rw [hin]
            exact EInv.of_osame hos hsk (hm.done s (by omega) hsn)
        · intro s hs hsn
          have hsk : s ≠ k := by omega
          have hin := (StoreFrame.symStep_inputs u fuel i (e1, ins1) k s hsk).1
          rw [hin]
          exact EInv.of_osame hos hsk (hm.todo s (by omega) hsn)
        · intro s hsn
          by_cases hsk : s = k
          · subst hsk; exact g4
          · have hin := (StoreFrame.symStep_inputs u fuel i (e1, ins1) k s hsk).1
            rw [hin]; exact hm.spaced s hsn
        · intro s hsn
          by_cases hsk : s = k
          · subst hsk; rw [g3]; exact hm.lens s hsn
          · have hin := (StoreFrame.symStep_inputs u fuel i (e1, ins1) k s hsk).1
            rw [hin]; exact hm.lens s hsn

/-- the state of all symbols between iterations -/
structure AllInv (e : Engine M) (inputs : List (List Candle)) (t0 : Int) (nsym n : Nat) (len : Nat → Nat) : Prop where
  inv : ∀ s, s < nsym → EInv e s t0 ((inputs.getD s []).take n)
  spaced : ∀ s, s < nsym → ∀ j (h : j < (inputs.getD s []).length), (inputs.getD s [])[j].ts = t0 + 60000 * (j : Int)
  lens : ∀ s, s < nsym → (inputs.getD s []).length = len s

/-- ONE ITERATION OF THE NORMAL SIMULATOR, any number of symbols and timeframes, every strategy -/
theorem stepAt_all (fuel i : Nat) (e : Engine M) (inputs : List (List Candle)) (t0 : Int) (len : Nat → Nat)
    (hal : ∀ s, s < e.cfg.nsym → AlignedCfg e.cfg s t0) (hil : ∀ s, s < e.cfg.nsym → i < len s)
    (hi : AllInv e inputs t0 e.cfg.nsym i len) :
    (stepAt u fuel inputs e i).1.err.isSome ∨
    ((stepAt u fuel inputs e i).1.cfg = e.cfg ∧
     AllInv (stepAt u fuel inputs e i).1 (stepAt u fuel inputs e i).2 t0 e.cfg.nsym (i + 1) len) := by
  unfold stepAt
  dsimp only
  split
  · left; assumption
  · have hs0 : StoreFrame.SSame e { e with time := ((((inputs.getD 0 [])[i]?).map (·.ts)).getD 0) + 60000 } := ⟨rfl, rfl⟩
    have h0 : MidInv { e with time := ((((inputs.getD 0 [])[i]?).map (·.ts)).getD 0) + 60000 } inputs t0 e.cfg.nsym i 0 len :=
      ⟨fun s hs _ => absurd hs (by omega), fun s _ hsn => EInv.of_same hs0 (hi.inv s hsn), hi.spaced, hi.lens⟩
    have h := symFold_inv u fuel i { e with time := ((((inputs.getD 0 [])[i]?).map (·.ts)).getD 0) + 60000 } inputs t0 len
      hal hil h0 e.cfg.nsym (le_refl _)
    rcases h with herr | ⟨hcfg, hm⟩
    · left; exact routesStep_err u fuel _ i (i + 1) herr
    · right
      have hs := StoreFrame.routesStep_ss u fuel
        ((List.range e.cfg.nsym).foldl (symStep u fuel i) ({ e with time := ((((inputs.getD 0 [])[i]?).map (·.ts)).getD 0) + 60000 }, inputs)).1 i (i + 1)
      exact ⟨by rw [hs.2]; exact hcfg, ⟨fun s hsn => EInv.of_same hs (hm.done s hsn hsn), hm.spaced, hm.lens⟩⟩

/-- THE RUN OF THE NORMAL SIMULATOR — any number of symbols, any set of timeframes per symbol, EVERY strategy: if the
    session starts on a boundary of every timeframe, every symbol's input minutes are evenly spaced and the stores start
    empty, then after each of the first `n` iterations every symbol's store holds exactly its first `n` normalised input
    rows and satisfies `StoreInv` for each of its timeframes — or the run has been stopped by an error. -/
theorem runStepN_all (fuel : Nat) (inputs : List (List Candle)) (e : Engine M) (t0 : Int) (len : Nat → Nat)
    (hal : ∀ s, s < e.cfg.nsym → AlignedCfg e.cfg s t0)
    (hi : AllInv e inputs t0 e.cfg.nsym 0 len) :
    ∀ n, (∀ s, s < e.cfg.nsym → n ≤ len s) →
      (runStepN u fuel inputs e n).1.err.isSome ∨
      ((runStepN u fuel inputs e n).1.cfg = e.cfg ∧
       AllInv (runStepN u fuel inputs e n).1 (runStepN u fuel inputs e n).2 t0 e.cfg.nsym n len) := by
  intro n
  induction n with
  | zero =>
    intro _
    right
    unfold runStepN
    simp only [List.range_zero, List.foldl_nil]
    have hs : StoreFrame.SSame e (saveDaily { e with time := (((inputs.getD 0 [])[0]?).map (·.ts)).getD 0 }) :=
      StoreFrame.SSame.trans (⟨rfl, rfl⟩ : StoreFrame.SSame e { e with time := (((inputs.getD 0 [])[0]?).map (·.ts)).getD 0 })
        (StoreFrame.saveDaily_ss _)
    exact ⟨hs.2, ⟨fun s hsn => EInv.of_same hs (hi.inv s hsn), hi.spaced, hi.lens⟩⟩
  | succ k ih =>
    intro hk
    have hstep : runStepN u fuel inputs e (k + 1) =
        stepAt u fuel (runStepN u fuel inputs e k).2 (runStepN u fuel inputs e k).1 k := by
      unfold runStepN
      rw [List.range_succ, List.foldl_append]
      rfl
    rw [hstep]
    rcases ih (fun s hs => by have := hk s hs; omega) with herr | ⟨h2, h1⟩
    · left
      unfold stepAt
      rw [if_pos herr]; exact herr
    · have := stepAt_all u fuel k (runStepN u fuel inputs e k).1 (runStepN u fuel inputs e k).2 t0 len
        (by rw [h2]; exact hal) (by rw [h2]; intro s hs; have := hk s hs; omega) (by rw [h2]; exact h1)
      rcases this with herr | ⟨g2, g1⟩
      · left; exact herr
      · right; exact ⟨by rw [g2, h2], by rw [h2] at g1; exact g1⟩

/-- the premise of `runStepN_all` is met by every fresh engine whose input arrays are evenly spaced -/
theorem init_all (cfg : Cfg) (kind : Acc.Kind) (balance fee leverage : Rat) (m0 : M) (t0 : Int) (inputs : List (List Candle))
    (hsp : ∀ s, s < cfg.nsym → ∀ j (h : j < (inputs.getD s []).length), (inputs.getD s [])[j].ts = t0 + 60000 * (j : Int)) :
    AllInv (initEngine cfg kind balance fee leverage m0) inputs t0 cfg.nsym 0 (fun s => (inputs.getD s []).length) := by
  refine ⟨?_, hsp, fun _ _ => rfl⟩
  intro s hs
  have hst : storeOf (initEngine cfg kind balance fee leverage m0) s = {} := by
    unfold storeOf initEngine
    simp [List.getD_eq_getElem?_getD, List.getElem?_replicate, hs]
  rw [List.take_zero]
  refine ⟨by unfold initEngine; simpa using hs, by rw [hst], fun j h => absurd h (by simp), ?_⟩
  intro m _
  rw [hst]
  refine ⟨[], ?_, Or.inl rfl⟩
  simp [longOf, visible, AggLemmas.windows_nil]

/-! ### the fast simulator: matching a minute that is not stored yet

In the fast simulator a minute of the chunk is stored only when an order is executed in it (the partial candle) or when
its matching is over.  The first PUBLISH of such a minute is NEW MINUTE + PUBLISH in one call. -/

/-- NEW MINUTE + PUBLISH: the engine's partial-candle update with a candle that carries the NEXT minute's timestamp -/
theorem publish_new_minute (e : Engine M) (sym : Nat) (c : Candle) (t0 : Int) (P : List Candle)
    (hal : AlignedCfg e.cfg sym t0) (hi : EInv e sym t0 P) (hc : c.ts = t0 + 60000 * (P.length : Int)) :
    EPre (updatePartialCandle e sym c) sym t0 c.ts P ∧
    ∀ m ∈ tfsRaw e.cfg sym, StoreInv m (storeOf (updatePartialCandle e sym c) sym).short
      (longOf (storeOf (updatePartialCandle e sym c) sym) m) := by
  -- the state after the 1m write alone
  have hp1 := new_minute_gives_pre e sym c t0 P hal hi hc
  have hst := StoreFrame.storeOf_addCandle e sym 1 c hi.hs
  simp only [if_true] at hst
  have hsh1 : (storeOf (addCandle e sym 1 c) sym).short = P ++ [c] := by
    obtain ⟨l, hl, _⟩ := hp1.last
    have hd := hp1.pfx
    have hne : (storeOf (addCandle e sym 1 c) sym).short ≠ [] := by intro h0; rw [h0] at hl; simp at hl
    have := List.dropLast_append_getLast? l hl
    rw [hd] at this
    -- the last row is c
    rw [hst] at hl ⊢
    have hc0 : ¬ c.ts = 0 := by
      rw [hc]; have : (0 : Int) ≤ (P.length : Int) := Int.natCast_nonneg _
      have := hal.1; omega
    have hadd : Store.addCandle (storeOf e sym).short c = P ++ [c] := by
      rw [hi.short]
      unfold Store.addCandle
      simp only [hc0, if_false]
      cases hl2 : P.getLast? with
      | none => rfl
      | some last =>
        have hne2 : P ≠ [] := by intro h0; rw [h0] at hl2; simp at hl2
        have hpos : 0 < P.length := List.length_pos_iff.mpr hne2
        have hle : last = P[P.length - 1] := by
          rw [List.getLast?_eq_getElem?, List.getElem?_eq_getElem (by omega)] at hl2
          injection hl2 with h; exact h.symm
        have hlts : last.ts = t0 + 60000 * ((P.length - 1 : Nat) : Int) := by rw [hle]; exact hi.spaced _ (by omega)
        have hgt : c.ts > last.ts := by
          rw [hc, hlts]
          have : ((P.length - 1 : Nat) : Int) < (P.length : Int) := by exact_mod_cast (by omega : P.length - 1 < P.length)
          omega
        simp only [hgt, if_true]
    exact hadd
  have hX : ({ storeOf e sym with short := Store.addCandle (storeOf e sym).short c } : SymStore) = storeOf (addCandle e sym 1 c) sym := hst.symm
  have hsp' : Spaced t0 (storeOf (addCandle e sym 1 c) sym).short := hp1.spaced
  have hlast' : (storeOf (addCandle e sym 1 c) sym).short.getLast? = some c := by rw [hsh1]; simp
  obtain ⟨r1, _, r3⟩ := pubFold_inv c t0 hal.1 (tfsRaw e.cfg sym) hal.2 (tfsRaw e.cfg sym) (fun m hm => hm)
    (storeOf (addCandle e sym 1 c) sym) [] hsp' hlast' hp1.pre (by intro m hm; cases hm)
  obtain ⟨hcfg, hlen⟩ := updatePartialCandle_cfg_len e sym c
  have hres : storeOf (updatePartialCandle e sym c) sym =
      (tfsRaw e.cfg sym).foldl (StoreFrame.pubStep c) (storeOf (addCandle e sym 1 c) sym) := by
    rw [StoreFrame.updatePartialCandle_store e sym c hi.hs, hX]; rfl
  have hne : (storeOf (addCandle e sym 1 c) sym).short ≠ [] := by rw [hsh1]; simp
  refine ⟨⟨by rw [hlen]; exact hi.hs, ?_, ?_, ?_, ?_⟩, ?_⟩
  · rw [hres, r1]; exact hp1.pfx
  · rw [hres, r1]; exact hsp'
  · rw [hres, r1]; exact ⟨c, hlast', rfl⟩
  · intro m hm
    rw [hcfg] at hm
    rw [hres, r1]
    exact pre_of_inv m _ _ (hal.2 m hm).1 hne (r3 m (by rw [List.nil_append]; exact hm))
  · intro m hm
    rw [hres, r1]
    exact r3 m (by rw [List.nil_append]; exact hm)

/-- the state of a symbol's store when minute `ts` is matched in the fast simulator: not stored yet, or stored -/
inductive FPre (e : Engine M) (sym : Nat) (t0 ts : Int) (P : List Candle) : Prop
  | fresh : EInv e sym t0 P → ts = t0 + 60000 * (P.length : Int) → FPre e sym t0 ts P
  | stored : EPre e sym t0 ts P → FPre e sym t0 ts P

theorem FPre.of_same {e e' : Engine M} {sym : Nat} {t0 ts : Int} {P : List Candle} (h : StoreFrame.SSame e e')
    (hp : FPre e sym t0 ts P) : FPre e' sym t0 ts P := by
  cases hp with
  | fresh hi hc => exact FPre.fresh (EInv.of_same h hi) hc
  | stored hp => exact FPre.stored (EPre.of_same h hp)

/-- THE MATCHING LOOP OF THE FAST SIMULATOR keeps `FPre`, for every strategy -/
theorem matchLoop_keeps_fpre (fuel : Nat) : ∀ (e : Engine M) (sym : Nat) (cur : Candle) (cands : List Nat)
    (resel : Engine M → Candle → List Nat) (st : Bool) (t0 : Int) (P : List Candle),
    AlignedCfg e.cfg sym t0 → FPre e sym t0 cur.ts P →
    FPre (matchLoop u fuel e sym cur cands resel st).1 sym t0 cur.ts P ∧
    (matchLoop u fuel e sym cur cands resel st).1.cfg = e.cfg := by
  induction fuel with
  | zero =>
    intro e sym cur cands resel st t0 P _ hp; unfold matchLoop
    refine ⟨FPre.of_same (StoreFrame.fail_ss _ _) hp, ?_⟩
    unfold fail; split <;> rfl
  | succ f ih =>
    intro e sym cur cands resel st t0 P hal hp
    unfold matchLoop
    dsimp only
    split
    · exact ⟨hp, rfl⟩
    · split
      · exact ⟨hp, rfl⟩
      · split
        · refine ⟨FPre.of_same (StoreFrame.fail_ss _ _) hp, ?_⟩
          unfold fail; split <;> rfl
        · rename_i id0 _ _ a b hsplit
          obtain ⟨ha, hb⟩ := split_ts _ _ _ _ hsplit
          have hp1 : EPre (updatePartialCandle e sym a) sym t0 cur.ts P := by
            cases hp with
            | fresh hi hc =>
              have := (publish_new_minute e sym a t0 P hal hi (by rw [ha]; exact hc)).1
              rw [ha] at this; exact this
            | stored hp0 => exact (publish_keeps_pre e sym a t0 cur.ts P hal hp0 ha).1
          obtain ⟨hcfg1, _⟩ := updatePartialCandle_cfg_len e sym a
          have hs2 : StoreFrame.SSame (updatePartialCandle e sym a)
              (executeOrder u (if st = true then { setCurrentPrice (updatePartialCandle e sym a) sym a.c with time := a.ts + 60000 }
                               else setCurrentPrice (updatePartialCandle e sym a) sym a.c) id0) := by
            refine StoreFrame.SSame.trans ?_ (StoreFrame.executeOrder_ss u _ _)
            split <;> exact ⟨rfl, rfl⟩
          revert hs2
          generalize executeOrder u (if st = true then { setCurrentPrice (updatePartialCandle e sym a) sym a.c with time := a.ts + 60000 }
                               else setCurrentPrice (updatePartialCandle e sym a) sym a.c) id0 = e4
          intro hs2
          have hp2 := EPre.of_same hs2 hp1
          have hcfg2 := hs2.2
          rw [← hb] at hp2 ⊢
          have := ih e4 sym b (resel e4 b) resel st t0 P (by rw [hcfg2, hcfg1]; exact hal) (FPre.stored hp2)
          exact ⟨this.1, by rw [this.2, hcfg2, hcfg1]⟩

/-- the stored rows after NEW MINUTE -/
theorem new_minute_short (e : Engine M) (sym : Nat) (c : Candle) (t0 : Int) (P : List Candle)
    (hal : AlignedCfg e.cfg sym t0) (hi : EInv e sym t0 P) (hc : c.ts = t0 + 60000 * (P.length : Int)) :
    (storeOf (addCandle e sym 1 c) sym).short = P ++ [c] := by
  have hst := StoreFrame.storeOf_addCandle e sym 1 c hi.hs
  simp only [if_true] at hst
  rw [hst]
  have hc0 : ¬ c.ts = 0 := by
    rw [hc]; have : (0 : Int) ≤ (P.length : Int) := Int.natCast_nonneg _
    have := hal.1; omega
  show Store.addCandle (storeOf e sym).short c = P ++ [c]
  rw [hi.short]
  unfold Store.addCandle
  simp only [hc0, if_false]
  cases hl2 : P.getLast? with
  | none => rfl
  | some last =>
    have hne2 : P ≠ [] := by intro h0; rw [h0] at hl2; simp at hl2
    have hpos : 0 < P.length := List.length_pos_iff.mpr hne2
    have hle : last = P[P.length - 1] := by
      rw [List.getLast?_eq_getElem?, List.getElem?_eq_getElem (by omega)] at hl2
      injection hl2 with h; exact h.symm
    have hlts : last.ts = t0 + 60000 * ((P.length - 1 : Nat) : Int) := by rw [hle]; exact hi.spaced _ (by omega)
    have hgt : c.ts > last.ts := by
      rw [hc, hlts]
      have : ((P.length - 1 : Nat) : Int) < (P.length : Int) := by exact_mod_cast (by omega : P.length - 1 < P.length)
      omega
    simp only [hgt, if_true]

/-- the stored rows after REPLACE LAST -/
theorem replace_last_short (e : Engine M) (sym : Nat) (c : Candle) (t0 ts : Int) (P : List Candle)
    (hal : AlignedCfg e.cfg sym t0) (hp : EPre e sym t0 ts P) (hc : c.ts = ts) :
    (storeOf (addCandle e sym 1 c) sym).short = P ++ [c] := by
  have hst := StoreFrame.storeOf_addCandle e sym 1 c hp.hs
  simp only [if_true] at hst
  rw [hst]
  show Store.addCandle (storeOf e sym).short c = P ++ [c]
  obtain ⟨l1, hl1, hl1ts⟩ := hp.last
  have hne : (storeOf e sym).short ≠ [] := by intro h0; rw [h0] at hl1; simp at hl1
  have hpos : 0 < (storeOf e sym).short.length := List.length_pos_iff.mpr hne
  have hl1e : l1 = (storeOf e sym).short[(storeOf e sym).short.length - 1] := by
    rw [List.getLast?_eq_getElem?, List.getElem?_eq_getElem (by omega)] at hl1
    injection hl1 with h; exact h.symm
  have hlts' : l1.ts = t0 + 60000 * (((storeOf e sym).short.length - 1 : Nat) : Int) := by
    rw [hl1e]; exact hp.spaced _ (by omega)
  have hr0 : ¬ c.ts = 0 := by
    rw [hc, ← hl1ts, hlts']
    have : (0 : Int) ≤ (((storeOf e sym).short.length - 1 : Nat) : Int) := Int.natCast_nonneg _
    have := hal.1; omega
  have hcl : c.ts = l1.ts := by rw [hc, hl1ts]
  unfold Store.addCandle
  have hngt : ¬ l1.ts > l1.ts := lt_irrefl _
  have hl0 : ¬ l1.ts = 0 := by rw [← hcl]; exact hr0
  simp only [hcl, hl0, if_false, hl1, hngt, if_true]
  rw [hp.pfx]

/-- the state at the end of the per-minute loop of a chunk -/
structure LInv (e : Engine M) (sym : Nat) (t0 : Int) (rows : List Candle) : Prop where
  hs : sym < e.stores.length
  short : (storeOf e sym).short = rows
  spaced : Spaced t0 rows
  pre : ∀ m ∈ tfsRaw e.cfg sym, PreInv m rows (longOf (storeOf e sym) m)

/-- THE PER-MINUTE LOOP OF A CHUNK (fast simulator), every strategy: starting from `EInv` with rows `Q`, matching the
    minutes `rest` one after the other — each stored when an order is executed in it or when its matching is over — ends
    with the rows `Q ++ rest` stored and `PreInv` for every timeframe, provided no minute but the last one completes a
    window (the chunk lies inside one window of every timeframe), or the run was stopped by an error. -/
theorem perMinute_inv (fuel : Nat) (sym : Nat) (real : Candle) (t0 : Int) (rest : List Candle) :
    ∀ (prev : Option Candle) (e : Engine M) (cands : List Nat) (Q : List Candle),
      AlignedCfg e.cfg sym t0 → EInv e sym t0 Q → rest ≠ [] →
      (∀ j (h : j < rest.length), rest[j].ts = t0 + 60000 * ((Q.length + j : Nat) : Int)) →
      (∀ m ∈ tfsRaw e.cfg sym, ∀ j, j + 1 < rest.length → (Q.length + j + 1) % m ≠ 0) →
      (simulateChunk.perMinute u fuel sym real rest prev e cands).err.isSome ∨
      (LInv (simulateChunk.perMinute u fuel sym real rest prev e cands) sym t0 (Q ++ rest) ∧
       (simulateChunk.perMinute u fuel sym real rest prev e cands).cfg = e.cfg) := by
  induction rest with
  | nil => intro prev e cands Q _ _ hne; exact absurd rfl hne
  | cons c more ih =>
    intro prev e cands Q hal hi _ hts hwin
    unfold simulateChunk.perMinute
    dsimp only
    split
    · left; assumption
    · have hcts : c.ts = t0 + 60000 * (Q.length : Int) := by
        have := hts 0 (by simp)
        simpa using this
      have key : ∀ cur : Candle, cur.ts = c.ts →
          (match matchLoop u fuel e sym cur cands (chunkReselect sym real c more) true with
           | (e1, cur') =>
             if e1.err.isSome then e1 else
             simulateChunk.perMinute u fuel sym real more (some c) (setCurrentPrice (addCandle e1 sym 1 c) sym cur'.c)
               (if e1.log.length = e.log.length then cands else chunkReselect sym real c more e1 cur')).err.isSome ∨
          (LInv (match matchLoop u fuel e sym cur cands (chunkReselect sym real c more) true with
           | (e1, cur') =>
             if e1.err.isSome then e1 else
             simulateChunk.perMinute u fuel sym real more (some c) (setCurrentPrice (addCandle e1 sym 1 c) sym cur'.c)
               (if e1.log.length = e.log.length then cands else chunkReselect sym real c more e1 cur')) sym t0 (Q ++ c :: more) ∧
           (match matchLoop u fuel e sym cur cands (chunkReselect sym real c more) true with
           | (e1, cur') =>
             if e1.err.isSome then e1 else
             simulateChunk.perMinute u fuel sym real more (some c) (setCurrentPrice (addCandle e1 sym 1 c) sym cur'.c)
               (if e1.log.length = e.log.length then cands else chunkReselect sym real c more e1 cur')).cfg = e.cfg) := by
        intro cur hcur
        have h := matchLoop_keeps_fpre u fuel e sym cur cands (chunkReselect sym real c more) true t0 Q hal
          (FPre.fresh hi (by rw [hcur]; exact hcts))
        revert h
        generalize matchLoop u fuel e sym cur cands (chunkReselect sym real c more) true = p
        intro h
        obtain ⟨e1, c'⟩ := p
        dsimp only at h ⊢
        obtain ⟨hf, hcfg1⟩ := h
        split
        · left; assumption
        · -- the minute is stored (NEW MINUTE if nothing was executed in it, REPLACE LAST otherwise)
          have hal1 : AlignedCfg e1.cfg sym t0 := by rw [hcfg1]; exact hal
          have hp2 : EPre (addCandle e1 sym 1 c) sym t0 c.ts Q ∧ (storeOf (addCandle e1 sym 1 c) sym).short = Q ++ [c] := by
            cases hf with
            | fresh hi1 _ =>
              exact ⟨new_minute_gives_pre e1 sym c t0 Q hal1 hi1 hcts, new_minute_short e1 sym c t0 Q hal1 hi1 hcts⟩
            | stored hp1 =>
              rw [hcur] at hp1
              exact ⟨replace_last_keeps_pre e1 sym c t0 c.ts Q hal1 hp1 rfl, replace_last_short e1 sym c t0 c.ts Q hal1 hp1 rfl⟩
          have hs3 : StoreFrame.SSame (addCandle e1 sym 1 c) (setCurrentPrice (addCandle e1 sym 1 c) sym c'.c) := ⟨rfl, rfl⟩
          have hp3 := EPre.of_same hs3 hp2.1
          have hsh3 : (storeOf (setCurrentPrice (addCandle e1 sym 1 c) sym c'.c) sym).short = Q ++ [c] := hp2.2
          have hcfg3 : (setCurrentPrice (addCandle e1 sym 1 c) sym c'.c).cfg = e.cfg := hcfg1
          revert hp3 hsh3 hcfg3
          generalize setCurrentPrice (addCandle e1 sym 1 c) sym c'.c = e3
          intro hp3 hsh3 hcfg3
          by_cases hmore : more = []
          · subst hmore
            right
            unfold simulateChunk.perMinute
            exact ⟨⟨hp3.hs, hsh3, by rw [← hsh3]; exact hp3.spaced, by intro m hm; rw [← hsh3]; exact hp3.pre m hm⟩, hcfg3⟩
          · -- inside the chunk: no window of any timeframe ends here, so the store satisfies StoreInv again
            have hi3 : EInv e3 sym t0 (Q ++ [c]) := by
              refine ⟨hp3.hs, hsh3, by rw [← hsh3]; exact hp3.spaced, ?_⟩
              intro m hm
              have hm' : m ∈ tfsRaw e.cfg sym := by rw [← hcfg3]; exact hm
              have hnb : (Q ++ [c]).length % m ≠ 0 := by
                have := hwin m hm' 0 (by
                  have : 0 < more.length := List.length_pos_iff.mpr hmore
                  simp only [List.length_cons]; omega)
                simpa using this
              have hpre := hp3.pre m hm
              rw [hsh3] at hpre
              exact inv_of_pre_forming m (Q ++ [c]) _ (hal.2 m hm').1 hnb hpre
            have hlen : (Q ++ [c]).length = Q.length + 1 := by simp
            have := ih (some c) e3 (if e1.log.length = e.log.length then cands else chunkReselect sym real c more e1 c') (Q ++ [c])
              (by rw [hcfg3]; exact hal) hi3 hmore
              (by
                intro j hj
                have := hts (j + 1) (by simp only [List.length_cons]; omega)
                rw [hlen]
                simp only [List.getElem_cons_succ] at this
                rw [this]
                congr 2
                omega)
              (by
                intro m hm j hj
                rw [hcfg3] at hm
                have := hwin m hm (j + 1) (by simp only [List.length_cons]; omega)
                rw [hlen]
                have e1' : Q.length + 1 + j + 1 = Q.length + (j + 1) + 1 := by omega
                rw [e1']; exact this)
            rcases this with herr | ⟨hl, hc⟩
            · left; exact herr
            · right
              refine ⟨?_, by rw [hc, hcfg3]⟩
              have : Q ++ [c] ++ more = Q ++ c :: more := by simp
              rw [← this]; exact hl
      cases prev with
      | none => exact key c rfl
      | some p =>
        have : (fixJump p c).ts = c.ts := by
          rcases fix_jump_spec p c with h | h
          · exact h.1
          · rw [h.2]
        exact key (fixJump p c) this

/-! ### the end of a chunk: `add_multiple_1m_candles` -/

/-- several NEW MINUTEs at once inside one window: `StoreInv` before, `PreInv` after, provided none of the new minutes
    but the last one completes a window -/
theorem pre_of_new_minutes (m : Nat) (hm : 0 < m) (long : List Candle) (cs : List Candle) :
    ∀ (P : List Candle), cs ≠ [] → StoreInv m P long →
      (∀ j, j + 1 < cs.length → (P.length + j + 1) % m ≠ 0) → PreInv m (P ++ cs) long := by
  induction cs with
  | nil => intro P h; exact absurd rfl h
  | cons c more ih =>
    intro P _ hinv hwin
    have h1 := pre_of_new_minute m P long c hm hinv
    by_cases hmore : more = []
    · subst hmore; exact h1
    · have hnb : (P ++ [c]).length % m ≠ 0 := by
        have := hwin 0 (by
          have : 0 < more.length := List.length_pos_iff.mpr hmore
          simp only [List.length_cons]; omega)
        simpa using this
      have h2 := inv_of_pre_forming m (P ++ [c]) long hm hnb h1
      have := ih (P ++ [c]) hmore h2 (by
        intro j hj
        have := hwin (j + 1) (by simp only [List.length_cons]; omega)
        have hl : (P ++ [c]).length = P.length + 1 := by simp
        rw [hl]
        have e1 : P.length + 1 + j + 1 = P.length + (j + 1) + 1 := by omega
        rw [e1]; exact this)
      have e2 : P ++ [c] ++ more = P ++ c :: more := by simp
      rw [← e2]; exact this

/-- `add_multiple_1m_candles` when none of the chunk's minutes is stored yet: they are appended -/
theorem addMultiple_append (P cs : List Candle) (t0 : Int) (hne : cs ≠ []) (hsp : Spaced t0 (P ++ cs)) :
    addMultiple1m P cs = .ok (P ++ cs) := by
  unfold addMultiple1m
  obtain ⟨c0, rest, rfl⟩ := List.exists_cons_of_ne_nil hne
  have hl : (c0 :: rest).getLast? = some ((c0 :: rest).getLast (by simp)) := List.getLast?_eq_some_getLast (by simp)
  rw [List.head?_cons, hl]
  dsimp only
  cases hP : P.getLast? with
  | none => rfl
  | some last =>
    have hneP : P ≠ [] := by intro h0; rw [h0] at hP; simp at hP
    have hpos : 0 < P.length := List.length_pos_iff.mpr hneP
    have hle : last = P[P.length - 1] := by
      rw [List.getLast?_eq_getElem?, List.getElem?_eq_getElem (by omega)] at hP
      injection hP with h; exact h.symm
    have h1 : last.ts = t0 + 60000 * ((P.length - 1 : Nat) : Int) := by
      have := hsp (P.length - 1) (by simp; omega)
      rw [List.getElem_append_left (by omega)] at this
      rw [hle]; exact this
    have h2 : c0.ts = t0 + 60000 * ((P.length : Nat) : Int) := by
      have := hsp P.length (by simp)
      rw [List.getElem_append_right (by omega)] at this
      simpa using this
    have hgt : c0.ts > last.ts := by
      rw [h1, h2]
      have : ((P.length - 1 : Nat) : Int) < (P.length : Int) := by exact_mod_cast (by omega : P.length - 1 < P.length)
      omega
    simp only [hgt, if_true]

/-- `add_multiple_1m_candles` when every minute of the chunk has been stored already: the rows are rewritten in place -/
theorem addMultiple_override (P cs : List Candle) (t0 : Int) (hne : cs ≠ []) (hsp : Spaced t0 (P ++ cs)) :
    addMultiple1m (P ++ cs) cs = .ok (P ++ cs) := by
  unfold addMultiple1m
  obtain ⟨c0, rest, rfl⟩ := List.exists_cons_of_ne_nil hne
  have hl : (c0 :: rest).getLast? = some ((c0 :: rest).getLast (by simp)) := List.getLast?_eq_some_getLast (by simp)
  have hl2 : (P ++ c0 :: rest).getLast? = some ((c0 :: rest).getLast (by simp)) := by
    rw [List.getLast?_append_of_ne_nil _ (by simp)]; exact hl
  rw [List.head?_cons, hl, hl2]
  dsimp only
  -- the first row of the chunk is not later than its last row
  have hidx : ∀ j (h : j < (c0 :: rest).length), (c0 :: rest)[j].ts = t0 + 60000 * ((P.length + j : Nat) : Int) := by
    intro j hj
    have := hsp (P.length + j) (by simp at hj ⊢; omega)
    rw [List.getElem_append_right (by omega)] at this
    simpa using this
  have hc0 : c0.ts = t0 + 60000 * ((P.length : Nat) : Int) := by
    have := hidx 0 (by simp)
    simp only [List.getElem_cons_zero, Nat.add_zero] at this
    exact this
  have hcl : ((c0 :: rest).getLast (by simp)).ts = t0 + 60000 * ((P.length + rest.length : Nat) : Int) := by
    rw [List.getLast_eq_getElem]
    have := hidx ((c0 :: rest).length - 1) (by simp)
    simpa using this
  have hngt : ¬ c0.ts > ((c0 :: rest).getLast (by simp)).ts := by
    rw [hc0, hcl]
    have : ((P.length : Nat) : Int) ≤ ((P.length + rest.length : Nat) : Int) := by exact_mod_cast Nat.le_add_right _ _
    omega
  simp only [hngt, if_false]
  have hget : Py.getIdx (P ++ c0 :: rest) (-(((c0 :: rest).length : Nat) : Int)) = some c0 := by
    unfold Py.getIdx Py.normIdx
    have hneg : ¬ (0 ≤ -(((c0 :: rest).length : Nat) : Int)) := by simp; omega
    simp only [hneg, if_false]
    have hle : (- -(((c0 :: rest).length : Nat) : Int)).toNat ≤ (P ++ c0 :: rest).length := by simp
    simp only [hle, if_true]
    have : (P ++ c0 :: rest).length - (- -(((c0 :: rest).length : Nat) : Int)).toNat = P.length := by simp
    rw [this]
    simp
  rw [hget]
  dsimp only
  have hcond : c0.ts ≥ c0.ts ∧ ((c0 :: rest).getLast (by simp)).ts ≥ ((c0 :: rest).getLast (by simp)).ts := ⟨le_refl _, le_refl _⟩
  simp only [hcond, and_self, if_true]
  have hov : ((((c0 :: rest).length : Nat) : Int) - (((c0 :: rest).getLast (by simp)).ts - ((c0 :: rest).getLast (by simp)).ts) / 60000) = (((c0 :: rest).length : Nat) : Int) := by
    simp
  rw [hov]
  have hpos : ¬ ((((c0 :: rest).length : Nat) : Int) ≤ 0) := by simp
  simp only [hpos, if_false, Int.toNat_natCast]
  have h1 : (P ++ c0 :: rest).length - (c0 :: rest).length = P.length := by simp
  rw [h1, List.take_left' rfl, List.take_length]

theorem LInv.of_same {e e' : Engine M} {sym : Nat} {t0 : Int} {rows : List Candle} (h : StoreFrame.SSame e e')
    (hi : LInv e sym t0 rows) : LInv e' sym t0 rows := by
  obtain ⟨h1, h2⟩ := h
  have hst : storeOf e' sym = storeOf e sym := by unfold storeOf; rw [h1]
  exact ⟨by rw [h1]; exact hi.hs, by rw [hst]; exact hi.short, hi.spaced, by rw [hst, h2]; exact hi.pre⟩

/-- the liquidation check at the end of a chunk keeps `LInv` -/
theorem checkLiquidation_keeps_linv (e : Engine M) (sym : Nat) (c : Candle) (t0 : Int) (rows : List Candle)
    (hal : AlignedCfg e.cfg sym t0) (hne : rows ≠ []) (hl : LInv e sym t0 rows) :
    LInv (checkLiquidation u e sym c) sym t0 rows ∧ (checkLiquidation u e sym c).cfg = e.cfg := by
  obtain ⟨l, hlast⟩ : ∃ l, rows.getLast? = some l := by
    cases h : rows.getLast? with
    | none => exact absurd (List.getLast?_eq_none_iff.mp h) hne
    | some l => exact ⟨l, rfl⟩
  have hp : EPre e sym t0 l.ts rows.dropLast :=
    ⟨hl.hs, by rw [hl.short], by rw [hl.short]; exact hl.spaced, ⟨l, by rw [hl.short]; exact hlast, rfl⟩,
      by intro m hm; rw [hl.short]; exact hl.pre m hm⟩
  obtain ⟨hp2, hcfg⟩ := checkLiquidation_keeps_pre u e sym c t0 l.ts rows.dropLast hal hp
  have hsh := checkLiquidation_short u e sym c t0 l.ts rows.dropLast hal hp
  have hsh2 : (storeOf (checkLiquidation u e sym c) sym).short = rows := by rw [hsh, hl.short]
  exact ⟨⟨hp2.hs, hsh2, hl.spaced, by intro m hm; rw [← hsh2]; exact hp2.pre m hm⟩, hcfg⟩

/-- A WHOLE CHUNK OF THE FAST SIMULATOR for one symbol, every strategy: from `EInv` with rows `P` to the rows `P ++ cs`
    stored with `PreInv` for every timeframe (the chunk lies inside one window of each), or the run was stopped. -/
theorem simulateChunk_inv (fuel : Nat) (e : Engine M) (sym : Nat) (cs : List Candle) (t0 : Int) (P : List Candle)
    (hal : AlignedCfg e.cfg sym t0) (hi : EInv e sym t0 P) (hne : cs ≠ [])
    (hts : ∀ j (h : j < cs.length), cs[j].ts = t0 + 60000 * ((P.length + j : Nat) : Int))
    (hwin : ∀ m ∈ tfsRaw e.cfg sym, ∀ j, j + 1 < cs.length → (P.length + j + 1) % m ≠ 0) :
    (simulateChunk u fuel e sym cs).err.isSome ∨
    (LInv (simulateChunk u fuel e sym cs) sym t0 (P ++ cs) ∧ (simulateChunk u fuel e sym cs).cfg = e.cfg) := by
  have hspc : Spaced t0 (P ++ cs) := by
    intro j hj
    by_cases hjl : j < P.length
    · rw [List.getElem_append_left hjl]; exact hi.spaced j hjl
    · have hj2 : j - P.length < cs.length := by simp at hj; omega
      rw [List.getElem_append_right (by omega)]
      rw [hts (j - P.length) hj2]
      congr 2
      omega
  unfold simulateChunk
  dsimp only
  split
  · left; assumption
  · split
    · left
      rename_i k hk
      unfold fail; split
      · assumption
      · rfl
    · rename_i real hreal
      -- the per-minute loop (only when some order lies inside the chunk's range)
      have h1 : (if (executingOrders e sym real).length > 0 then
            simulateChunk.perMinute u fuel sym real cs none e
              (if (executingOrders e sym real).length > 1 then sortExecutionOrders e (executingOrders e sym real) (fixChunk none cs) else executingOrders e sym real)
            else e).err.isSome ∨
          (((storeOf (if (executingOrders e sym real).length > 0 then
            simulateChunk.perMinute u fuel sym real cs none e
              (if (executingOrders e sym real).length > 1 then sortExecutionOrders e (executingOrders e sym real) (fixChunk none cs) else executingOrders e sym real)
            else e) sym).short = P ∨
            (storeOf (if (executingOrders e sym real).length > 0 then
            simulateChunk.perMinute u fuel sym real cs none e
              (if (executingOrders e sym real).length > 1 then sortExecutionOrders e (executingOrders e sym real) (fixChunk none cs) else executingOrders e sym real)
            else e) sym).short = P ++ cs) ∧
           sym < (if (executingOrders e sym real).length > 0 then
            simulateChunk.perMinute u fuel sym real cs none e
              (if (executingOrders e sym real).length > 1 then sortExecutionOrders e (executingOrders e sym real) (fixChunk none cs) else executingOrders e sym real)
            else e).stores.length ∧
           (∀ m ∈ tfsRaw e.cfg sym, PreInv m (P ++ cs) (longOf (storeOf (if (executingOrders e sym real).length > 0 then
            simulateChunk.perMinute u fuel sym real cs none e
              (if (executingOrders e sym real).length > 1 then sortExecutionOrders e (executingOrders e sym real) (fixChunk none cs) else executingOrders e sym real)
            else e) sym) m)) ∧
           (if (executingOrders e sym real).length > 0 then
            simulateChunk.perMinute u fuel sym real cs none e
              (if (executingOrders e sym real).length > 1 then sortExecutionOrders e (executingOrders e sym real) (fixChunk none cs) else executingOrders e sym real)
            else e).cfg = e.cfg) := by
        split
        · rcases perMinute_inv u fuel sym real t0 cs none e _ P hal hi hne hts hwin with herr | ⟨hl, hc⟩
          · left; exact herr
          · right
            exact ⟨Or.inr hl.short, hl.hs, by intro m hm; exact hl.pre m (by rw [hc]; exact hm), hc⟩
        · right
          refine ⟨Or.inl hi.short, hi.hs, ?_, rfl⟩
          intro m hm
          exact pre_of_new_minutes m (hal.2 m hm).1 _ cs P hne (hi.inv m hm) (hwin m hm)
      revert h1
      generalize (if (executingOrders e sym real).length > 0 then
            simulateChunk.perMinute u fuel sym real cs none e
              (if (executingOrders e sym real).length > 1 then sortExecutionOrders e (executingOrders e sym real) (fixChunk none cs) else executingOrders e sym real)
            else e) = e1
      intro h1
      split
      · left; assumption
      · rcases h1 with herr | ⟨hsh, hs1, hpre1, hcfg1⟩
        · rename_i hno; exact absurd herr hno
        · -- add_multiple_1m_candles yields the rows P ++ cs in both cases
          have hadd : addMultiple1m (storeOf e1 sym).short cs = .ok (P ++ cs) := by
            rcases hsh with h | h
            · rw [h]; exact addMultiple_append P cs t0 hne hspc
            · rw [h]; exact addMultiple_override P cs t0 hne hspc
          rw [hadd]
          dsimp only
          -- the state after the write
          have hst2 : storeOf { e1 with stores := Acc.upd e1.stores sym (fun s => { s with short := P ++ cs }),
                                        time := real.ts + 60000 * cs.length } sym = { storeOf e1 sym with short := P ++ cs } := by
            unfold storeOf
            show (Acc.upd e1.stores sym _).getD sym default = _
            rw [StoreFrame.getD_upd_same _ _ _ hs1]
          have hl2 : LInv { e1 with stores := Acc.upd e1.stores sym (fun s => { s with short := P ++ cs }),
                                    time := real.ts + 60000 * cs.length } sym t0 (P ++ cs) := by
            refine ⟨by show sym < (Acc.upd e1.stores sym _).length; rw [StoreFrame.length_upd]; exact hs1, by rw [hst2], hspc, ?_⟩
            intro m hm
            rw [hst2]
            have hm' : m ∈ tfsRaw e.cfg sym := by
              have : ({ e1 with stores := Acc.upd e1.stores sym (fun s => { s with short := P ++ cs }),
                                time := real.ts + 60000 * cs.length } : Engine M).cfg = e.cfg := hcfg1
              rw [← this]; exact hm
            exact hpre1 m hm'
          have hne2 : P ++ cs ≠ [] := by simp [hne]
          have hal2 : AlignedCfg ({ e1 with stores := Acc.upd e1.stores sym (fun s => { s with short := P ++ cs }),
                                            time := real.ts + 60000 * cs.length } : Engine M).cfg sym t0 := by
            show AlignedCfg e1.cfg sym t0; rw [hcfg1]; exact hal
          obtain ⟨hl3, hcfg3⟩ := checkLiquidation_keeps_linv u _ sym real t0 (P ++ cs) hal2 hne2 hl2
          have hcfg4 := hcfg3.trans hcfg1
          revert hl3 hcfg4
          generalize checkLiquidation u _ sym real = e3
          intro hl3 hcfg4
          right
          split
          · rename_i lastc _
            have hss : StoreFrame.SSame e3 (setCurrentPrice e3 sym lastc.c) := ⟨rfl, rfl⟩
            exact ⟨LInv.of_same hss hl3, by rw [hss.2]; exact hcfg4⟩
          · exact ⟨hl3, hcfg4⟩

/-! ### a whole iteration of the fast simulator for one symbol -/

theorem close_fold_err_skip (sym i step : Nat) (cs' : List Candle) (L : List Nat) (e : Engine M) (h : e.err.isSome) :
    (L.foldl (fun (e : Engine M) (tf : Nat) =>
        if (i + step) % tf = 0 then
          match generateCandle tf (Py.slice cs' (some ((i : Int) - (tf : Int) + step)) (some ((i : Int) + step))) False with
          | .ok g => addCandle e sym tf g
          | .error k => fail e k
        else e) e).err.isSome := by
  induction L generalizing e with
  | nil => exact h
  | cons m rest ih =>
    simp only [List.foldl_cons]
    apply ih
    split
    · split
      · exact h
      · unfold fail; rw [if_pos h]; exact h
    · exact h

/-- if `S` divides `m`, a number that is not a multiple of `S` is not a multiple of `m` -/
theorem not_mul_of_dvd (S m x : Nat) (hS : S ∣ m) (hx : x % S ≠ 0) : x % m ≠ 0 := by
  intro h
  apply hx
  exact Nat.mod_eq_zero_of_dvd (Nat.dvd_trans hS (Nat.dvd_of_mod_eq_zero h))

/-- ONE ITERATION OF THE FAST SIMULATOR FOR ONE SYMBOL, every strategy: a chunk of `step` minutes starting at row `i`
    (a multiple of the nominal step `S`, which divides every timeframe of the symbol; `step ≤ S`) leads from `EInv` with
    the first `i` rows to `EInv` with the first `i + step` rows, unless the run was stopped by an error. -/
theorem symSkip_inv (fuel i step S : Nat) (e : Engine M) (inputs : List (List Candle)) (sym : Nat) (t0 : Int)
    (hal : AlignedCfg e.cfg sym t0) (hstep : 0 < step) (hstepS : step ≤ S) (hiS : i % S = 0)
    (hdiv : ∀ m ∈ tfsRaw e.cfg sym, S ∣ m)
    (hin : ∀ j (h : j < (inputs.getD sym []).length), (inputs.getD sym [])[j].ts = t0 + 60000 * (j : Int))
    (hil : i + step ≤ (inputs.getD sym []).length)
    (hi : EInv e sym t0 ((inputs.getD sym []).take i)) :
    (symSkip u fuel i step (e, inputs) sym).1.err.isSome ∨
    (EInv (symSkip u fuel i step (e, inputs) sym).1 sym t0 (((symSkip u fuel i step (e, inputs) sym).2.getD sym []).take (i + step)) ∧
     (symSkip u fuel i step (e, inputs) sym).1.cfg = e.cfg ∧
     ((symSkip u fuel i step (e, inputs) sym).2.getD sym []).length = (inputs.getD sym []).length ∧
     ∀ j (h : j < ((symSkip u fuel i step (e, inputs) sym).2.getD sym []).length),
       ((symSkip u fuel i step (e, inputs) sym).2.getD sym [])[j].ts = t0 + 60000 * (j : Int)) := by
  unfold symSkip
  dsimp only
  split
  · left; assumption
  · generalize hcs : inputs.getD sym [] = cs at *
    -- the input array after the normalisation of the chunk's first row
    have hff : ∃ cs', fixedFirst cs i = cs' ∧ cs'.length = cs.length ∧ cs'.take i = cs.take i ∧
        ∀ j (h : j < cs'.length), cs'[j].ts = t0 + 60000 * (j : Int) := by
      unfold fixedFirst
      by_cases h0 : i = 0
      · simp only [h0, ne_eq, not_true_eq_false, if_false]; exact ⟨cs, rfl, rfl, rfl, hin⟩
      · simp only [h0, ne_eq, not_false_eq_true, if_true]
        cases hfr : fixedRow cs i with
        | none => exact ⟨cs, rfl, rfl, rfl, hin⟩
        | some c =>
          have hil' : i < cs.length := by omega
          have hcts : c.ts = t0 + 60000 * (i : Int) := by
            unfold fixedRow at hfr
            rw [List.getElem?_eq_getElem hil'] at hfr
            simp only [h0, if_false] at hfr
            have hlt : i - 1 < cs.length := by omega
            rw [List.getElem?_eq_getElem hlt] at hfr
            injection hfr with hfr
            rw [← hfr]
            rcases fix_jump_spec cs[i - 1] cs[i] with h | h
            · rw [h.1]; exact hin i hil'
            · rw [h.2]; exact hin i hil'
          refine ⟨cs.set i c, rfl, by simp, List.take_set_of_le (le_refl i), ?_⟩
          intro j hj
          have hj' : j < cs.length := by simpa using hj
          by_cases hji : j = i
          · subst hji; simp [hcts]
          · rw [List.getElem_set_ne (by omega)]; exact hin j hj'
    obtain ⟨cs', hcs', hlen', htake', hin'⟩ := hff
    rw [hcs']
    have hsyml : sym < inputs.length := by
      by_contra hge
      have : inputs.getD sym [] = [] := by
        rw [List.getD_eq_getElem?_getD, List.getElem?_eq_none (by omega)]; rfl
      rw [hcs] at this; rw [this] at hil; simp at hil; omega
    have hget : (inputs.set sym cs').getD sym [] = cs' := by
      rw [List.getD_eq_getElem?_getD, List.getElem?_set_self (by omega)]; rfl
    simp only [hget]
    -- the chunk
    have hle : i + step ≤ cs'.length := by rw [hlen']; exact hil
    have hchunk : Py.slice cs' (some (i : Int)) (some ((i : Int) + step)) = (cs'.take (i + step)).drop i := by
      have e2 : ((i : Int) + (step : Int)) = ((i + step : Nat) : Int) := by omega
      rw [e2, slice_nat cs' i (i + step) (by omega) hle]
    rw [hchunk]
    have hclen : ((cs'.take (i + step)).drop i).length = step := by
      rw [List.length_drop, List.length_take]; omega
    have hcne : (cs'.take (i + step)).drop i ≠ [] := by
      intro h0; rw [h0] at hclen; simp at hclen; omega
    have hrows : cs.take i ++ (cs'.take (i + step)).drop i = cs'.take (i + step) := by
      rw [← htake']
      have : cs'.take i = (cs'.take (i + step)).take i := by rw [List.take_take]; congr 1; omega
      rw [this, List.take_append_drop]
    have hlen1 : (cs.take i).length = i := by rw [List.length_take]; omega
    have hcts : ∀ j (h : j < ((cs'.take (i + step)).drop i).length),
        ((cs'.take (i + step)).drop i)[j].ts = t0 + 60000 * (((cs.take i).length + j : Nat) : Int) := by
      intro j hj
      rw [hclen] at hj
      rw [List.getElem_drop, List.getElem_take, hlen1]
      exact hin' (i + j) (by omega)
    have hwin : ∀ m ∈ tfsRaw e.cfg sym, ∀ j, j + 1 < ((cs'.take (i + step)).drop i).length → ((cs.take i).length + j + 1) % m ≠ 0 := by
      intro m hm j hj
      rw [hclen] at hj
      rw [hlen1]
      apply not_mul_of_dvd S m _ (hdiv m hm)
      have hS : 0 < S := by omega
      have : (i + j + 1) % S = (j + 1) % S := by
        have hd := Nat.div_add_mod i S
        rw [hiS, Nat.add_zero] at hd
        rw [← hd, Nat.add_assoc, Nat.mul_add_mod]
      rw [this, Nat.mod_eq_of_lt (by omega)]
      omega
    have hch := simulateChunk_inv u fuel e sym ((cs'.take (i + step)).drop i) t0 (cs.take i) hal hi hcne hcts hwin
    revert hch
    generalize simulateChunk u fuel e sym ((cs'.take (i + step)).drop i) = e1
    intro hch
    rcases hch with herr | ⟨hl, hcfg1⟩
    · left; exact close_fold_err_skip sym i step _ _ e1 herr
    · right
      rw [hrows] at hl
      have hT : ∀ m ∈ tfsRaw e.cfg sym, 0 < m ∧ m ≠ 1 := by
        intro m hm
        refine ⟨(hal.2 m hm).1, ?_⟩
        unfold tfsRaw at hm
        obtain ⟨r, hr, rfl⟩ := List.mem_map.mp hm
        have := (List.mem_filter.mp hr).2
        simp only [decide_eq_true_eq] at this
        exact this.2
      have hL : ∀ m ∈ tfsOf e.cfg sym, m ∈ tfsRaw e.cfg sym := by
        intro m hm; exact (mem_eraseDups_nat _ m).mp hm
      have hpre' : ∀ m ∈ tfsRaw e.cfg sym, PreInv m (cs'.take (i + step)) (longOf (storeOf e1 sym) m) := by
        intro m hm; exact hl.pre m (by rw [hcfg1]; exact hm)
      obtain ⟨r1, r2, r3, r4, _⟩ := close_fold_skip sym i step hstep cs' (cs'.take (i + step)) t0 hal.1 (tfsRaw e.cfg sym) hT
        (by rw [List.length_take]; omega) rfl hl.spaced (tfsOf e.cfg sym) hL e1 [] hl.hs hl.short hpre' (by intro m hm; cases hm)
      have hcfg3 := r4.trans hcfg1
      refine ⟨⟨r1, r2, hl.spaced, ?_⟩, hcfg3, hlen', hin'⟩
      intro m hm
      have hm' : m ∈ tfsRaw e.cfg sym := by
        have := congrArg (fun c => tfsRaw c sym) hcfg3
        rw [← this]; exact hm
      exact r3 m (by rw [List.nil_append]; exact (mem_eraseDups_nat _ m).mpr hm')

/-! ### the whole run of the fast simulator, any number of symbols -/

/-- the state of all symbols in the middle of an iteration: the first `k` symbols hold `b` rows, the others `a` -/
structure MidInvG (e : Engine M) (inputs : List (List Candle)) (t0 : Int) (nsym a b k : Nat) (len : Nat → Nat) : Prop where
  done : ∀ s, s < k → s < nsym → EInv e s t0 ((inputs.getD s []).take b)
  todo : ∀ s, k ≤ s → s < nsym → EInv e s t0 ((inputs.getD s []).take a)
  spaced : ∀ s, s < nsym → ∀ j (h : j < (inputs.getD s []).length), (inputs.getD s [])[j].ts = t0 + 60000 * (j : Int)
  lens : ∀ s, s < nsym → (inputs.getD s []).length = len s

theorem symSkip_of_err (fuel i step : Nat) (acc : Engine M × List (List Candle)) (sym : Nat) (h : acc.1.err.isSome) :
    symSkip u fuel i step acc sym = acc := by
  unfold symSkip; rw [if_pos h]

/-- the per-symbol loop of one iteration of the fast simulator, for the first `k` symbols -/
theorem symSkipFold_inv (fuel i step S : Nat) (e : Engine M) (inputs : List (List Candle)) (t0 : Int) (len : Nat → Nat)
    (hal : ∀ s, s < e.cfg.nsym → AlignedCfg e.cfg s t0) (hstep : 0 < step) (hstepS : step ≤ S) (hiS : i % S = 0)
    (hdiv : ∀ s, s < e.cfg.nsym → ∀ m ∈ tfsRaw e.cfg s, S ∣ m)
    (hil : ∀ s, s < e.cfg.nsym → i + step ≤ len s)
    (h0 : MidInvG e inputs t0 e.cfg.nsym i (i + step) 0 len) :
    ∀ k, k ≤ e.cfg.nsym →
      ((List.range k).foldl (symSkip u fuel i step) (e, inputs)).1.err.isSome ∨
      (((List.range k).foldl (symSkip u fuel i step) (e, inputs)).1.cfg = e.cfg ∧
       MidInvG ((List.range k).foldl (symSkip u fuel i step) (e, inputs)).1 ((List.range k).foldl (symSkip u fuel i step) (e, inputs)).2
         t0 e.cfg.nsym i (i + step) k len) := by
  intro k
  induction k with
  | zero => intro _; right; exact ⟨rfl, h0⟩
  | succ k ih =>
    intro hk
    rw [List.range_succ, List.foldl_append]
    simp only [List.foldl_cons, List.foldl_nil]
    rcases ih (by omega) with herr | ⟨hcfg, hm⟩
    · left
      rw [symSkip_of_err u fuel i step _ k herr]; exact herr
    · revert hcfg hm
      generalize (List.range k).foldl (symSkip u fuel i step) (e, inputs) = acc
      intro hcfg hm
      obtain ⟨e1, ins1⟩ := acc
      dsimp only at hcfg hm ⊢
      have hkn : k < e.cfg.nsym := by omega
      have hlenk : i + step ≤ (ins1.getD k []).length := by rw [hm.lens k hkn]; exact hil k hkn
      have hstepr := symSkip_inv u fuel i step S e1 ins1 k t0 (by rw [hcfg]; exact hal k hkn) hstep hstepS hiS
        (by rw [hcfg]; exact hdiv k hkn) (hm.spaced k hkn) hlenk (hm.todo k (le_refl k) hkn)
      have hos := StoreFrame.symSkip_os u fuel i step (e1, ins1) k
      rcases hstepr with herr | ⟨g1, g2, g3, g4⟩
      · left; exact herr
      · right
        refine ⟨by rw [g2, hcfg], ⟨?_, ?_, ?_, ?_⟩⟩
        · intro s hs hsn
          by_cases hsk : s = k
          · subst hsk; exact g1
          · have hin := (StoreFrame.symSkip_inputs u fuel i step (e1, ins1) k s hsk).1
            rw [hin]
            exact EInv.of_osame hos hsk (hm.done s (by omega) hsn)
        · intro s hs hsn
          have hsk : s ≠ k := by omega
          have hin := (StoreFrame.symSkip_inputs u fuel i step (e1, ins1) k s hsk).1
          rw [hin]
          exact EInv.of_osame hos hsk (hm.todo s (by omega) hsn)
        · intro s hsn
          by_cases hsk : s = k
          · subst hsk; exact g4
          · have hin := (StoreFrame.symSkip_inputs u fuel i step (e1, ins1) k s hsk).1
            rw [hin]; exact hm.spaced s hsn
        · intro s hsn
          by_cases hsk : s = k
          · subst hsk; rw [g3]; exact hm.lens s hsn
          · have hin := (StoreFrame.symSkip_inputs u fuel i step (e1, ins1) k s hsk).1
            rw [hin]; exact hm.lens s hsn

/-- ONE ITERATION OF THE FAST SIMULATOR, any number of symbols and timeframes, every strategy -/
theorem skipAt_all (fuel i step S : Nat) (e : Engine M) (inputs : List (List Candle)) (t0 : Int) (len : Nat → Nat)
    (hal : ∀ s, s < e.cfg.nsym → AlignedCfg e.cfg s t0) (hstep : 0 < step) (hstepS : step ≤ S) (hiS : i % S = 0)
    (hdiv : ∀ s, s < e.cfg.nsym → ∀ m ∈ tfsRaw e.cfg s, S ∣ m)
    (hil : ∀ s, s < e.cfg.nsym → i + step ≤ len s)
    (hi : AllInv e inputs t0 e.cfg.nsym i len) :
    (skipAt u fuel inputs e i step).1.err.isSome ∨
    ((skipAt u fuel inputs e i step).1.cfg = e.cfg ∧
     AllInv (skipAt u fuel inputs e i step).1 (skipAt u fuel inputs e i step).2 t0 e.cfg.nsym (i + step) len) := by
  unfold skipAt
  dsimp only
  split
  · left; assumption
  · have h0 : MidInvG e inputs t0 e.cfg.nsym i (i + step) 0 len :=
      ⟨fun s hs _ => absurd hs (by omega), fun s _ hsn => hi.inv s hsn, hi.spaced, hi.lens⟩
    have h := symSkipFold_inv u fuel i step S e inputs t0 len hal hstep hstepS hiS hdiv hil h0 e.cfg.nsym (le_refl _)
    rcases h with herr | ⟨hcfg, hm⟩
    · left; exact routesStep_err u fuel _ i (i + step) herr
    · right
      have hs := StoreFrame.routesStep_ss u fuel
        ((List.range e.cfg.nsym).foldl (symSkip u fuel i step) (e, inputs)).1 i (i + step)
      exact ⟨by rw [hs.2]; exact hcfg, ⟨fun s hsn => EInv.of_same hs (hm.done s hsn hsn), hm.spaced, hm.lens⟩⟩

/-- THE RUN OF THE FAST SIMULATOR — any number of symbols (input arrays of one common length `n`), any set of timeframes
    per symbol, all of them multiples of the chunk size `step`, EVERY strategy: after each of the first `k` chunks every
    symbol's store holds exactly its first `min (k * step) n` input rows (the first row of every chunk normalised) and
    satisfies `StoreInv` for each of its timeframes — or the run has been stopped by an error. -/
theorem runSkipN_all (fuel : Nat) (inputs : List (List Candle)) (e : Engine M) (t0 : Int) (step : Nat)
    (hal : ∀ s, s < e.cfg.nsym → AlignedCfg e.cfg s t0) (hstep : 0 < step)
    (hdiv : ∀ s, s < e.cfg.nsym → ∀ m ∈ tfsRaw e.cfg s, step ∣ m)
    (hi : AllInv e inputs t0 e.cfg.nsym 0 (fun _ => (inputs.getD 0 []).length)) :
    ∀ k, (∀ j, j < k → j * step < (inputs.getD 0 []).length) →
      (runSkipN u fuel inputs e step k).1.err.isSome ∨
      ((runSkipN u fuel inputs e step k).1.cfg = e.cfg ∧
       AllInv (runSkipN u fuel inputs e step k).1 (runSkipN u fuel inputs e step k).2 t0 e.cfg.nsym
         (min (k * step) (inputs.getD 0 []).length) (fun _ => (inputs.getD 0 []).length)) := by
  intro k
  induction k with
  | zero =>
    intro _
    right
    unfold runSkipN
    simp only [List.range_zero, List.foldl_nil, Nat.zero_mul, Nat.zero_min]
    have hs : StoreFrame.SSame e (saveDaily { e with time := (((inputs.getD 0 [])[0]?).map (·.ts)).getD 0 }) :=
      StoreFrame.SSame.trans (⟨rfl, rfl⟩ : StoreFrame.SSame e { e with time := (((inputs.getD 0 [])[0]?).map (·.ts)).getD 0 })
        (StoreFrame.saveDaily_ss _)
    exact ⟨hs.2, ⟨fun s hsn => EInv.of_same hs (hi.inv s hsn), hi.spaced, hi.lens⟩⟩
  | succ k ih =>
    intro hk
    have hstepEq : runSkipN u fuel inputs e step (k + 1) =
        skipAt u fuel (runSkipN u fuel inputs e step k).2 (runSkipN u fuel inputs e step k).1 (k * step)
          (min step ((inputs.getD 0 []).length - k * step)) := by
      unfold runSkipN
      dsimp only
      rw [List.range_succ, List.foldl_append]
      rfl
    rw [hstepEq]
    have hkn : k * step < (inputs.getD 0 []).length := hk k (by omega)
    rcases ih (fun j hj => hk j (by omega)) with herr | ⟨h2, h1⟩
    · left
      unfold skipAt
      rw [if_pos herr]; exact herr
    · have hmin : min (k * step) (inputs.getD 0 []).length = k * step := Nat.min_eq_left (le_of_lt hkn)
      rw [hmin] at h1
      have hs' : 0 < min step ((inputs.getD 0 []).length - k * step) := by
        rw [Nat.lt_min]; exact ⟨hstep, by omega⟩
      have := skipAt_all u fuel (k * step) (min step ((inputs.getD 0 []).length - k * step)) step
        (runSkipN u fuel inputs e step k).1 (runSkipN u fuel inputs e step k).2 t0 (fun _ => (inputs.getD 0 []).length)
        (by rw [h2]; exact hal) hs' (Nat.min_le_left _ _) (Nat.mul_mod_left k step)
        (by rw [h2]; exact hdiv)
        (by rw [h2]; intro s _; have := Nat.min_le_right step ((inputs.getD 0 []).length - k * step); omega)
        (by rw [h2]; exact h1)
      have hnext : k * step + min step ((inputs.getD 0 []).length - k * step) = min ((k + 1) * step) (inputs.getD 0 []).length := by
        rw [Nat.add_mul, Nat.one_mul]
        omega
      rcases this with herr | ⟨g2, g1⟩
      · left; exact herr
      · right
        rw [h2] at g1
        rw [hnext] at g1
        exact ⟨by rw [g2, h2], g1⟩

/-! ### the chunk size of the fast simulator divides every timeframe -/

theorem gcd_foldl_dvd_init (l : List Nat) (a : Nat) : l.foldl Nat.gcd a ∣ a := by
  induction l generalizing a with
  | nil => exact Nat.dvd_refl a
  | cons x xs ih => exact Nat.dvd_trans (ih (Nat.gcd a x)) (Nat.gcd_dvd_left a x)

theorem gcd_foldl_dvd_mem (l : List Nat) (a x : Nat) (hx : x ∈ l) : l.foldl Nat.gcd a ∣ x := by
  induction l generalizing a with
  | nil => cases hx
  | cons y ys ih =>
    simp only [List.foldl_cons]
    rcases List.mem_cons.mp hx with h | h
    · subst h; exact Nat.dvd_trans (gcd_foldl_dvd_init ys (Nat.gcd a x)) (Nat.gcd_dvd_right a x)
    · exact ih (Nat.gcd a y) h

/-- `_calculate_minimum_candle_step`: the gcd of all route timeframes divides every bigger timeframe of every symbol -/
theorem gcdList_dvd_tfsRaw (cfg : Cfg) (sym : Nat) (m : Nat) (hm : m ∈ tfsRaw cfg sym) :
    gcdList ((cfg.routes ++ cfg.dataRoutes).map (·.tf)) ∣ m := by
  unfold gcdList
  apply gcd_foldl_dvd_mem
  unfold tfsRaw at hm
  obtain ⟨r, hr, rfl⟩ := List.mem_map.mp hm
  exact List.mem_map.mpr ⟨r, (List.mem_filter.mp hr).1, rfl⟩

/-- THE RUN OF THE FAST SIMULATOR with its own chunk size (the gcd of the route timeframes): `runSkipN_all` without the
    divisibility assumption. -/
theorem runSkipN_gcd (fuel : Nat) (inputs : List (List Candle)) (e : Engine M) (t0 : Int)
    (hal : ∀ s, s < e.cfg.nsym → AlignedCfg e.cfg s t0)
    (hstep : 0 < gcdList ((e.cfg.routes ++ e.cfg.dataRoutes).map (·.tf)))
    (hi : AllInv e inputs t0 e.cfg.nsym 0 (fun _ => (inputs.getD 0 []).length)) :
    ∀ k, (∀ j, j < k → j * gcdList ((e.cfg.routes ++ e.cfg.dataRoutes).map (·.tf)) < (inputs.getD 0 []).length) →
      (runSkipN u fuel inputs e (gcdList ((e.cfg.routes ++ e.cfg.dataRoutes).map (·.tf))) k).1.err.isSome ∨
      ((runSkipN u fuel inputs e (gcdList ((e.cfg.routes ++ e.cfg.dataRoutes).map (·.tf))) k).1.cfg = e.cfg ∧
       AllInv (runSkipN u fuel inputs e (gcdList ((e.cfg.routes ++ e.cfg.dataRoutes).map (·.tf))) k).1
         (runSkipN u fuel inputs e (gcdList ((e.cfg.routes ++ e.cfg.dataRoutes).map (·.tf))) k).2 t0 e.cfg.nsym
         (min (k * gcdList ((e.cfg.routes ++ e.cfg.dataRoutes).map (·.tf))) (inputs.getD 0 []).length)
         (fun _ => (inputs.getD 0 []).length)) :=
  runSkipN_all u fuel inputs e t0 _ hal hstep (fun s _ m hm => gcdList_dvd_tfsRaw e.cfg s m hm) hi

/-! ### what a reader gets, stated on the engine -/

theorem spaced_pairwise (t0 : Int) (rows : List Candle) (h : Spaced t0 rows) : rows.Pairwise (fun a b => a.ts < b.ts) := by
  rw [List.pairwise_iff_getElem]
  intro i j hi hj hij
  rw [h i hi, h j hj]
  have : (i : Int) < (j : Int) := by exact_mod_cast hij
  omega

/-- WHAT A READER GETS: whenever a symbol's store satisfies `EInv` — by `runStepN_all` / `runSkipN_all` after every
    iteration of either simulator, for every strategy — `get_candles` of every bigger timeframe of the symbol returns
    exactly one candle per started window of the stored minutes, each the aggregate of its minutes, and
    `get_current_candle` returns the last of them. -/
theorem reader_sees_aggregates (e : Engine M) (sym : Nat) (t0 : Int) (rows : List Candle) (m : Nat)
    (hal : AlignedCfg e.cfg sym t0) (hi : EInv e sym t0 rows) (hm : m ∈ tfsRaw e.cfg sym) :
    getCandles (storeOf e sym).short (longOf (storeOf e sym) m) m = .ok (visible m rows) ∧
    getCurrentCandle (storeOf e sym).short (longOf (storeOf e sym) m) m = .ok (visible m rows).getLast? := by
  rw [hi.short]
  exact ⟨get_candles_spec m rows _ (hal.2 m hm).1 (hi.inv m hm) (spaced_pairwise t0 rows hi.spaced),
    get_current_candle_spec m rows _ (hal.2 m hm).1 (hi.inv m hm)⟩

end run

/-! ### jump-fixing the inner minutes of a window does not change its aggregate

The normal simulator fixes the jump of EVERY minute in place before storing it; the fast simulator fixes only the
first minute of a chunk and stores the inner minutes as they came.  For the candles of the bigger timeframes this
makes no difference: extending a minute's range to the previous close never leaves the range the window already
covers.  (So the two simulators publish the same bigger-timeframe candles from the same input, although their 1m
arrays differ on gapped data.) -/
section fixchain

/-- the rows after `p`, each jump-fixed against its (already fixed) predecessor — what the normal simulator stores -/
def fixChain : Candle → List Candle → List Candle
  | _, [] => []
  | p, c :: cs => fixJump p c :: fixChain (fixJump p c) cs

theorem fixChain_length (p : Candle) (cs : List Candle) : (fixChain p cs).length = cs.length := by
  induction cs generalizing p with
  | nil => rfl
  | cons c cs ih => simp [fixChain, ih]

theorem fixChain_v (p : Candle) (cs : List Candle) : (fixChain p cs).map (·.v) = cs.map (·.v) := by
  induction cs generalizing p with
  | nil => rfl
  | cons c cs ih =>
    simp only [fixChain, List.map_cons, ih]
    rw [(fix_jump_spec p c).elim (fun h => h.2.2.1) (fun h => by rw [h.2])]

theorem fixChain_last_c (p : Candle) (cs : List Candle) (d : Candle) :
    (((fixChain p cs).getLast?).getD d).c = ((cs.getLast?).getD d).c := by
  induction cs generalizing p with
  | nil => rfl
  | cons c cs ih =>
    cases cs with
    | nil =>
      simp only [fixChain, List.getLast?_singleton, Option.getD_some]
      exact (fix_jump_spec p c).elim (fun h => h.2.1) (fun h => by rw [h.2])
    | cons c2 cs2 =>
      have := ih (fixJump p c)
      simp only [fixChain, List.getLast?_cons_cons] at this ⊢
      exact this

theorem fixChain_max (cs : List Candle) : ∀ (p : Candle) (acc : Rat), p.c ≤ acc → (∀ k ∈ cs, k.Valid) →
    maxOf ((fixChain p cs).map (·.h)) acc = maxOf (cs.map (·.h)) acc := by
  induction cs with
  | nil => intro _ _ _ _; rfl
  | cons c cs ih =>
    intro p acc hp hv
    have hc : c.Valid := hv c List.mem_cons_self
    obtain ⟨_, _, hh⟩ := fix_jump_bounds p c hc
    have hcc : (fixJump p c).c = c.c := (fix_jump_spec p c).elim (fun h => h.2.1) (fun h => by rw [h.2])
    simp only [fixChain, List.map_cons, maxOf]
    have hacc : (if acc < (fixJump p c).h then (fixJump p c).h else acc) = (if acc < c.h then c.h else acc) := by
      rw [hh]
      by_cases h1 : acc < c.h
      · have : acc < max c.h p.c := lt_of_lt_of_le h1 (le_max_left _ _)
        rw [if_pos this, if_pos h1, max_eq_left (by linarith)]
      · have : ¬ acc < max c.h p.c := by
          rw [not_lt]; exact max_le (not_lt.mp h1) hp
        rw [if_neg this, if_neg h1]
    rw [hacc]
    apply ih
    · rw [hcc]
      have := hc.2.2.2
      by_cases h1 : acc < c.h
      · rw [if_pos h1]; exact this
      · rw [if_neg h1]; exact le_trans this (not_lt.mp h1)
    · exact fun k hk => hv k (List.mem_cons_of_mem _ hk)

theorem fixChain_min (cs : List Candle) : ∀ (p : Candle) (acc : Rat), acc ≤ p.c → (∀ k ∈ cs, k.Valid) →
    minOf ((fixChain p cs).map (·.l)) acc = minOf (cs.map (·.l)) acc := by
  induction cs with
  | nil => intro _ _ _ _; rfl
  | cons c cs ih =>
    intro p acc hp hv
    have hc : c.Valid := hv c List.mem_cons_self
    obtain ⟨_, hl, _⟩ := fix_jump_bounds p c hc
    have hcc : (fixJump p c).c = c.c := (fix_jump_spec p c).elim (fun h => h.2.1) (fun h => by rw [h.2])
    simp only [fixChain, List.map_cons, minOf]
    have hacc : (if (fixJump p c).l < acc then (fixJump p c).l else acc) = (if c.l < acc then c.l else acc) := by
      rw [hl]
      by_cases h1 : c.l < acc
      · have : min c.l p.c < acc := lt_of_le_of_lt (min_le_left _ _) h1
        rw [if_pos this, if_pos h1, min_eq_left (by linarith)]
      · have : ¬ min c.l p.c < acc := by
          rw [not_lt]; exact le_min (not_lt.mp h1) hp
        rw [if_neg this, if_neg h1]
    rw [hacc]
    apply ih
    · rw [hcc]
      have := hc.2.2.1
      by_cases h1 : c.l < acc
      · rw [if_pos h1]; exact this
      · rw [if_neg h1]; exact le_trans (not_lt.mp h1) this
    · exact fun k hk => hv k (List.mem_cons_of_mem _ hk)

/-- THE AGGREGATE OF A WINDOW IS THE SAME whether its inner minutes are stored jump-fixed (normal simulator) or as
    they came (fast simulator), for every window of valid candles -/
theorem aggregate_fixChain (c0 : Candle) (rest : List Candle) (hv : ∀ k ∈ c0 :: rest, k.Valid) :
    aggregate (c0 :: fixChain c0 rest) = aggregate (c0 :: rest) := by
  have h0 : c0.Valid := hv c0 List.mem_cons_self
  have hr : ∀ k ∈ rest, k.Valid := fun k hk => hv k (List.mem_cons_of_mem _ hk)
  simp only [aggregate]
  have hlast : (((c0 :: fixChain c0 rest).getLast?).getD c0).c = (((c0 :: rest).getLast?).getD c0).c := by
    cases rest with
    | nil => rfl
    | cons c cs =>
      have := fixChain_last_c c0 (c :: cs) c0
      simp only [fixChain, List.getLast?_cons_cons] at this ⊢
      exact this
  rw [hlast, fixChain_max rest c0 c0.h h0.2.2.2 hr, fixChain_min rest c0 c0.l h0.2.2.1 hr]
  simp only [List.map_cons, fixChain_v]

/-- non-vacuity: a window whose second minute gaps up and third gaps down -/
example : aggregate (⟨0, 10, 11, 12, 9, 1⟩ :: fixChain ⟨0, 10, 11, 12, 9, 1⟩ [⟨60000, 13, 14, 15, 13, 1⟩, ⟨120000, 12, 12, 12, 11, 1⟩])
    = aggregate [⟨0, 10, 11, 12, 9, 1⟩, ⟨60000, 13, 14, 15, 13, 1⟩, ⟨120000, 12, 12, 12, 11, 1⟩]
    ∧ fixChain ⟨0, 10, 11, 12, 9, 1⟩ [⟨60000, 13, 14, 15, 13, 1⟩] ≠ [⟨60000, 13, 14, 15, 13, 1⟩] := by decide +kernel

end fixchain

/-! ### warm-up injection (`inject_warmup_candles_to_store`, model `Store.injectWarmup`)

The warm-up candles reach the store before the first simulated minute, by a path of their own: the 1m array through
`batch_add_candle`, each bigger timeframe through a loop that aggregates every complete window of the warm-up rows.
The theorems say that this path leaves the store in exactly the state the simulators maintain (`StoreInv`, no partial
candle): one candle per COMPLETE window, each the aggregate of its minutes — for every warm-up length (also one that
ends inside a window: the unfinished window is not stored, and `get_candles` regenerates it from the 1m rows),
every timeframe, every series of minutes that are one minute apart. -/
section warmup
open StoreProto

theorem add_appends (arr : List Candle) (c : Candle) (hz : c.ts ≠ 0) (h : ∀ last, arr.getLast? = some last → last.ts < c.ts) :
    addCandle arr c = arr ++ [c] := by
  unfold addCandle
  cases hl : arr.getLast? with
  | none => simp [hz]
  | some last => simp [hz, h last hl]

/-- `batch_add_candle` of minutes that are one minute apart stores exactly those minutes -/
theorem batchAdd_spaced (t0 : Int) (ht0 : 0 < t0) (cs : List Candle) : ∀ pre : List Candle, Spaced t0 (pre ++ cs) →
    batchAdd pre cs = pre ++ cs := by
  induction cs with
  | nil => intro pre _; simp [batchAdd]
  | cons c rest ih =>
    intro pre hsp
    have hc : c.ts = t0 + 60000 * (pre.length : Int) := by
      have := hsp pre.length (by simp)
      simpa using this
    have hadd : addCandle pre c = pre ++ [c] := by
      apply add_appends
      · rw [hc]; have : (0 : Int) ≤ (pre.length : Int) := Int.natCast_nonneg _; omega
      · intro last hl
        have hne : pre ≠ [] := by intro h0; rw [h0] at hl; simp at hl
        have hpos : 0 < pre.length := List.length_pos_iff.mpr hne
        have hlast : last = pre[pre.length - 1] := by
          rw [List.getLast?_eq_getElem?, List.getElem?_eq_getElem (by omega)] at hl
          exact (Option.some.inj hl).symm
        have h1 := hsp (pre.length - 1) (by simp; omega)
        rw [List.getElem_append_left (by omega)] at h1
        rw [hlast, h1, hc]
        have : ((pre.length - 1 : Nat) : Int) = (pre.length : Int) - 1 := by omega
        rw [this]; omega
    have : batchAdd pre (c :: rest) = batchAdd (addCandle pre c) rest := rfl
    rw [this, hadd, ih (pre ++ [c]) (by simpa using hsp)]
    simp

/-- the bigger-timeframe loop of the injection, after `j` of its iterations: one candle per complete window of the
    first `j` warm-up minutes, each the aggregate of its minutes -/
theorem injectLongUpTo_spec (m : Nat) (hm : 0 < m) (t0 : Int) (ht0 : 0 < t0) (cs : List Candle) (hsp : Spaced t0 cs) :
    ∀ j, j ≤ cs.length → injectLongUpTo m cs j = .ok (visible m (cs.take (j / m * m))) := by
  intro j
  induction j with
  | zero => intro _; simp [injectLongUpTo, visible, windows_nil]
  | succ j ih =>
    intro hj
    have hlen : (cs.take (j + 1)).length = j + 1 := by rw [List.length_take]; omega
    have hne : cs.take (j + 1) ≠ [] := by intro h0; rw [h0] at hlen; simp at hlen
    have hk0 : k0 m (cs.take (j + 1)) = j / m := by unfold k0; rw [hlen]; rfl
    unfold injectLongUpTo
    rw [ih (by omega)]
    simp only
    by_cases hb : (j + 1) % m = 0
    · rw [if_pos hb]
      obtain ⟨hq, hfull⟩ := k0_of_boundary m (cs.take (j + 1)) hm hne (by rw [hlen]; exact hb)
      rw [hlen, hk0] at hq hfull
      have hjm : j / m * m = j + 1 - m := by
        have : (j / m + 1) * m = j / m * m + m := by rw [Nat.add_mul, Nat.one_mul]
        omega
      have hmle : m ≤ j + 1 := by
        have : (j / m + 1) * m = j / m * m + m := by rw [Nat.add_mul, Nat.one_mul]
        omega
      -- the window of this iteration
      have hWlen : ((cs.drop (j + 1 - m)).take m).length = m := by
        rw [List.length_take, List.length_drop]; omega
      have hWne : (cs.drop (j + 1 - m)).take m ≠ [] := by
        intro h0; rw [h0] at hWlen; simp at hWlen; omega
      obtain ⟨a, c0, ha, hc0, hts⟩ := aggregate_some _ hWne
      rw [generate_is_aggregate, ha]
      simp only
      have hc0' : cs[j + 1 - m]? = some c0 := by
        rw [List.head?_take, if_neg (by omega), List.head?_drop] at hc0; exact hc0
      have hlt : j + 1 - m < cs.length := by omega
      have hats : a.ts = t0 + 60000 * ((j + 1 - m : Nat) : Int) := by
        rw [hts]
        rw [List.getElem?_eq_getElem hlt] at hc0'
        rw [← Option.some.inj hc0']; exact hsp _ hlt
      have hadd : addCandle (visible m (cs.take (j / m * m))) a = visible m (cs.take (j / m * m)) ++ [a] := by
        apply add_appends
        · rw [hats]; have : (0 : Int) ≤ ((j + 1 - m : Nat) : Int) := Int.natCast_nonneg _; omega
        · intro last hl
          have hmem : last ∈ visible m (cs.take (j / m * m)) := List.mem_of_getLast? hl
          obtain ⟨c, hc, hcts⟩ := visible_ts_mem m _ last hmem
          obtain ⟨k, hk, hck⟩ := List.getElem_of_mem hc
          rw [List.length_take] at hk
          have hk' : k < j + 1 - m := by rw [hjm] at hk; omega
          rw [List.getElem_take] at hck
          have := hsp k (by omega)
          rw [hcts, ← hck, this, hats]
          have : (k : Int) < ((j + 1 - m : Nat) : Int) := by exact_mod_cast hk'
          omega
      rw [hadd]
      congr 1
      -- what is visible of the first j + 1 minutes
      rw [hq, hfull]
      have hsplit : cs.take (j + 1) = cs.take (j / m * m) ++ (cs.drop (j + 1 - m)).take m := by
        rw [hjm]
        have : j + 1 = (j + 1 - m) + m := by omega
        conv => lhs; rw [this, List.take_add]
      rw [hsplit]
      unfold visible
      rw [windows_prefix_append m (j / m) _ _ hm (by rw [List.length_take]; omega), List.filterMap_append,
        windows_short m _ hm hWne (by omega)]
      simp [ha]
    · rw [if_neg hb]
      have := k0_of_forming m (cs.take (j + 1)) hm (by rw [hlen]; exact hb)
      rw [hlen, hk0] at this
      rw [this]

/-- WARM-UP INJECTION ESTABLISHES THE STORE INVARIANT: for every warm-up series of minutes one minute apart (any
    length) and every timeframe, the injection succeeds, the 1m array holds exactly the warm-up minutes and the bigger
    array satisfies `StoreInv` with no partial candle — the state `get_candles_spec` / `get_current_candle_spec` and
    the simulators' invariant start from -/
theorem inject_warmup_establishes_inv (m : Nat) (hm : 0 < m) (t0 : Int) (ht0 : 0 < t0) (cs : List Candle)
    (hsp : Spaced t0 cs) :
    batchAdd [] cs = cs ∧ ∃ long, injectLongUpTo m cs cs.length = .ok long ∧ StoreInv m cs long := by
  refine ⟨by simpa using batchAdd_spaced t0 ht0 cs [] (by simpa using hsp), _, injectLongUpTo_spec m hm t0 ht0 cs hsp _ (Nat.le_refl _), ?_⟩
  exact ⟨[], by simp, Or.inl rfl⟩

/-- non-vacuity: five warm-up minutes, timeframe 2: two complete windows, the fifth minute is not stored above 1m -/
example : injectLongUpTo 2 [⟨60000, 1, 2, 3, 0, 1⟩, ⟨120000, 2, 3, 4, 1, 1⟩, ⟨180000, 3, 1, 5, 1, 1⟩, ⟨240000, 1, 1, 1, 1, 1⟩,
      ⟨300000, 1, 2, 2, 1, 1⟩] 5 = .ok [⟨60000, 1, 3, 4, 0, 2⟩, ⟨180000, 3, 1, 5, 1, 2⟩] := by decide +kernel

end warmup

end C07
