/-
  Proofs/C09.lean — isolated-margin liquidation: the price formulas (GENERATED from
  jesse/models/Position.py).  The trigger/closing-order part is in Proofs/C09/ (engine model).
  PROPERTY THEOREMS ONLY.
-/
import Jesse.Gen.Position
import Proofs.Lemmas.Num

namespace C09
open Jesse Jesse.Gen

/-- Full functional specification of `liquidation_price` and `bankruptcy_price` for an open
    isolated-margin position. -/
theorem liq_spec_long (p : PosView) (hq : 0 < p.qty) (hm : p.mode = .isolated) :
    liquidationPrice p = .ok (some (p.entry * (1 - 1 / p.leverage + 1 / 250))) ∧
    bankruptcyPrice p = some (p.entry * (1 - 1 / p.leverage)) := by
  have hl : isLong p := hq
  unfold liquidationPrice bankruptcyPrice isClose
  simp [posType, hl, hm, initialMarginRate]

theorem liq_spec_short (p : PosView) (hq : p.qty < 0) (hm : p.mode = .isolated) :
    liquidationPrice p = .ok (some (p.entry * (1 + 1 / p.leverage - 1 / 250))) ∧
    bankruptcyPrice p = some (p.entry * (1 + 1 / p.leverage)) := by
  have hl : ¬ isLong p := by unfold isLong; exact not_lt.mpr (le_of_lt hq)
  have hs : isShort p := by unfold isShort absR; simpa using hq
  unfold liquidationPrice bankruptcyPrice isClose
  simp [posType, hl, hs, hm, initialMarginRate]

/-- LONG: for every leverage 1 ≤ L < 250 (in particular every integer leverage 2 … 125) and every
    positive entry price: bankruptcy < liquidation < entry. -/
theorem liq_between_long (p : PosView) (hq : 0 < p.qty) (hm : p.mode = .isolated)
    (he : 0 < p.entry) (hL1 : 1 ≤ p.leverage) (hL2 : p.leverage < 250) :
    ∃ liq bk, liquidationPrice p = .ok (some liq) ∧ bankruptcyPrice p = some bk ∧
      bk < liq ∧ liq < p.entry ∧ 0 ≤ bk := by
  obtain ⟨h1, h2⟩ := liq_spec_long p hq hm
  refine ⟨_, _, h1, h2, ?_, ?_, ?_⟩
  · have : (0 : Rat) < 1 / 250 := by norm_num
    nlinarith
  · have hL : 0 < p.leverage := by linarith
    have : 1 / 250 < 1 / p.leverage := by
      rw [div_lt_div_iff₀ (by norm_num) hL]; linarith
    nlinarith
  · have hL : 0 < p.leverage := by linarith
    have : 1 / p.leverage ≤ 1 := by rw [div_le_one hL]; exact hL1
    have : 0 ≤ 1 - 1 / p.leverage := by linarith
    positivity

/-- SHORT mirrored: entry < liquidation < bankruptcy. -/
theorem liq_between_short (p : PosView) (hq : p.qty < 0) (hm : p.mode = .isolated)
    (he : 0 < p.entry) (hL1 : 1 ≤ p.leverage) (hL2 : p.leverage < 250) :
    ∃ liq bk, liquidationPrice p = .ok (some liq) ∧ bankruptcyPrice p = some bk ∧
      p.entry < liq ∧ liq < bk := by
  obtain ⟨h1, h2⟩ := liq_spec_short p hq hm
  refine ⟨_, _, h1, h2, ?_, ?_⟩
  · have hL : 0 < p.leverage := by linarith
    have : 1 / 250 < 1 / p.leverage := by
      rw [div_lt_div_iff₀ (by norm_num) hL]; linarith
    nlinarith
  · have : (0 : Rat) < 1 / 250 := by norm_num
    nlinarith

/-- Cross-margin and spot positions have no liquidation price, and neither has a closed one. -/
theorem cross_and_spot_never (p : PosView) (hm : p.mode = .cross ∨ p.mode = .spot) :
    liquidationPrice p = .ok none := by
  unfold liquidationPrice
  rcases hm with hm | hm <;> simp [hm]

theorem closed_never (p : PosView) (hq : p.qty = 0) : liquidationPrice p = .ok none := by
  unfold liquidationPrice isClose posType isLong isShort absR
  simp [hq]

/-- Loss at the bankruptcy price is exactly the initial margin entry·|qty|/L (before fees). -/
theorem bankruptcy_loss_is_initial_margin (p : PosView) (hm : p.mode = .isolated)
    (hL : p.leverage ≠ 0) (hq : p.qty ≠ 0) :
    ∃ bk, bankruptcyPrice p = some bk ∧
      (if 0 < p.qty then p.qty * (bk - p.entry) else (-p.qty) * (p.entry - bk)) = -(p.entry * |p.qty| / p.leverage) := by
  rcases lt_or_gt_of_ne hq with h | h
  · obtain ⟨_, h2⟩ := liq_spec_short p h hm
    refine ⟨_, h2, ?_⟩
    have : ¬ 0 < p.qty := not_lt.mpr (le_of_lt h)
    rw [if_neg this, abs_of_neg h]; field_simp; ring
  · obtain ⟨_, h2⟩ := liq_spec_long p h hm
    refine ⟨_, h2, ?_⟩
    rw [if_pos h, abs_of_pos h]; field_simp; ring

/-- non-vacuity: leverage 10 long at 100 → liquidation 90.4, bankruptcy 90 -/
example : liquidationPrice { qty := 2, entry := 100, current := 100, leverage := 10, mode := .isolated, hasStrategy := True }
    = .ok (some (452/5)) := by decide +kernel

end C09
