/-
  Proofs/C09.lean — isolated-margin liquidation: the price formulas (GENERATED from
  jesse/models/Position.py) and the trigger / force-closing order of `_check_for_liquidations` (engine model).
  PROPERTY THEOREMS ONLY.
-/
import Jesse.Gen.Position
import Jesse.Engine
import Proofs.Lemmas.Num

namespace C09
open Jesse Jesse.Gen

/-- Full functional specification of `liquidation_price` and `bankruptcy_price` for an open
    isolated-margin position. -/
theorem liq_spec_long (p : PosView) (hq : 0 < p.qty) (hm : p.mode = .isolated) :
    liquidationPrice p = .ok (some (p.entry * (1 - 1 / p.leverage + 1 / 250))) ∧
    bankruptcyPrice p = some (p.entry * (1 - 1 / p.leverage)) := by
  have hl : isLong p := hq
  unfold liquidationPrice bankruptcyPrice isClose
  simp [posType, hl, hm, initialMarginRate]

theorem liq_spec_short (p : PosView) (hq : p.qty < 0) (hm : p.mode = .isolated) :
    liquidationPrice p = .ok (some (p.entry * (1 + 1 / p.leverage - 1 / 250))) ∧
    bankruptcyPrice p = some (p.entry * (1 + 1 / p.leverage)) := by
  have hl : ¬ isLong p := by unfold isLong; exact not_lt.mpr (le_of_lt hq)
  have hs : isShort p := by unfold isShort absR; simpa using hq
  unfold liquidationPrice bankruptcyPrice isClose
  simp [posType, hl, hs, hm, initialMarginRate]

/-- LONG: for every leverage 1 ≤ L < 250 (in particular every integer leverage 2 … 125) and every
    positive entry price: bankruptcy < liquidation < entry. -/
theorem liq_between_long (p : PosView) (hq : 0 < p.qty) (hm : p.mode = .isolated)
    (he : 0 < p.entry) (hL1 : 1 ≤ p.leverage) (hL2 : p.leverage < 250) :
    ∃ liq bk, liquidationPrice p = .ok (some liq) ∧ bankruptcyPrice p = some bk ∧
      bk < liq ∧ liq < p.entry ∧ 0 ≤ bk := by
  obtain ⟨h1, h2⟩ := liq_spec_long p hq hm
  refine ⟨_, _, h1, h2, ?_, ?_, ?_⟩
  · have : (0 : Rat) < 1 / 250 := by norm_num
    nlinarith
  · have hL : 0 < p.leverage := by linarith
    have : 1 / 250 < 1 / p.leverage := by
      rw [div_lt_div_iff₀ (by norm_num) hL]; linarith
    nlinarith
  · have hL : 0 < p.leverage := by linarith
    have : 1 / p.leverage ≤ 1 := by rw [div_le_one hL]; exact hL1
    have : 0 ≤ 1 - 1 / p.leverage := by linarith
    positivity

/-- SHORT mirrored: entry < liquidation < bankruptcy. -/
theorem liq_between_short (p : PosView) (hq : p.qty < 0) (hm : p.mode = .isolated)
    (he : 0 < p.entry) (hL1 : 1 ≤ p.leverage) (hL2 : p.leverage < 250) :
    ∃ liq bk, liquidationPrice p = .ok (some liq) ∧ bankruptcyPrice p = some bk ∧
      p.entry < liq ∧ liq < bk := by
  obtain ⟨h1, h2⟩ := liq_spec_short p hq hm
  refine ⟨_, _, h1, h2, ?_, ?_⟩
  · have hL : 0 < p.leverage := by linarith
    have : 1 / 250 < 1 / p.leverage := by
      rw [div_lt_div_iff₀ (by norm_num) hL]; linarith
    nlinarith
  · have : (0 : Rat) < 1 / 250 := by norm_num
    nlinarith

/-- Cross-margin and spot positions have no liquidation price, and neither has a closed one. -/
theorem cross_and_spot_never (p : PosView) (hm : p.mode = .cross ∨ p.mode = .spot) :
    liquidationPrice p = .ok none := by
  unfold liquidationPrice
  rcases hm with hm | hm <;> simp [hm]

theorem closed_never (p : PosView) (hq : p.qty = 0) : liquidationPrice p = .ok none := by
  unfold liquidationPrice isClose posType isLong isShort absR
  simp [hq]

/-- Loss at the bankruptcy price is exactly the initial margin entry·|qty|/L (before fees). -/
theorem bankruptcy_loss_is_initial_margin (p : PosView) (hm : p.mode = .isolated)
    (hL : p.leverage ≠ 0) (hq : p.qty ≠ 0) :
    ∃ bk, bankruptcyPrice p = some bk ∧
      (if 0 < p.qty then p.qty * (bk - p.entry) else (-p.qty) * (p.entry - bk)) = -(p.entry * |p.qty| / p.leverage) := by
  rcases lt_or_gt_of_ne hq with h | h
  · obtain ⟨_, h2⟩ := liq_spec_short p h hm
    refine ⟨_, h2, ?_⟩
    have : ¬ 0 < p.qty := not_lt.mpr (le_of_lt h)
    rw [if_neg this, abs_of_neg h]; field_simp; ring
  · obtain ⟨_, h2⟩ := liq_spec_long p h hm
    refine ⟨_, h2, ?_⟩
    rw [if_pos h, abs_of_pos h]; field_simp; ring

/-- non-vacuity: leverage 10 long at 100 → liquidation 90.4, bankruptcy 90 -/
example : liquidationPrice { qty := 2, entry := 100, current := 100, leverage := 10, mode := .isolated, hasStrategy := True }
    = .ok (some (452/5)) := by decide +kernel

/-! ### the trigger and the force-closing order (engine model) -/

section trigger
open Jesse.Eng Jesse.Acc
variable {M : Type} [Inhabited M] (u : UserStrategy M)

/-- the position as `_check_for_liquidations` reads it -/
def viewOf (e : Engine M) (sym : Nat) : PosView :=
  { qty := (posOf e sym).qty, entry := (posOf e sym).entry.getD 0, current := (posOf e sym).current.getD 0,
    leverage := e.w.leverage, mode := .isolated, hasStrategy := True }

/-- NEVER WITHOUT A TOUCH: if the liquidation check of a minute (or chunk) changes anything at all, then the
    session is isolated-margin futures, the position is open and the candle's range contains its liquidation price. -/
theorem liquidation_only_when_touched (e : Engine M) (sym : Nat) (c : Candle) (h : checkLiquidation u e sym c ≠ e) :
    e.cfg.isolated = true ∧ e.w.kind ≠ .spot ∧ (posOf e sym).qty ≠ 0 ∧
      ∃ liq, liquidationPrice (viewOf e sym) = .ok (some liq) ∧ candleIncludesPrice c liq := by
  unfold checkLiquidation at h
  by_cases he : e.err.isSome
  · rw [if_pos he] at h; exact absurd rfl h
  · rw [if_neg he] at h
    by_cases h2 : ¬ e.cfg.isolated ∨ e.w.kind = .spot
    · rw [if_pos h2] at h; exact absurd rfl h
    · rw [if_neg h2] at h
      have hiso : e.cfg.isolated = true := by
        by_cases hi : e.cfg.isolated = true
        · exact hi
        · exact absurd (Or.inl hi) h2
      have hk : e.w.kind ≠ .spot := fun hk => h2 (Or.inr hk)
      by_cases hq : (posOf e sym).qty = 0
      · simp only [hq, if_true] at h; exact absurd rfl h
      · refine ⟨hiso, hk, hq, ?_⟩
        simp only [hq, if_false] at h
        show ∃ liq, liquidationPrice (viewOf e sym) = _ ∧ _
        unfold viewOf
        cases hl : liquidationPrice { qty := (posOf e sym).qty, entry := (posOf e sym).entry.getD 0, current := (posOf e sym).current.getD 0,
                                      leverage := e.w.leverage, mode := .isolated, hasStrategy := True } with
        | error k => rw [hl] at h; exact absurd rfl h
        | ok o =>
          cases o with
          | none => rw [hl] at h; exact absurd rfl h
          | some liq =>
            refine ⟨liq, rfl, ?_⟩
            rw [hl] at h
            by_contra hn
            cases hb : bankruptcyPrice { qty := (posOf e sym).qty, entry := (posOf e sym).entry.getD 0, current := (posOf e sym).current.getD 0,
                                         leverage := e.w.leverage, mode := .isolated, hasStrategy := True } with
            | none => rw [hb] at h; exact absurd rfl h
            | some bk =>
              rw [hb] at h
              simp only [hn, decide_false, Bool.false_eq_true, if_false] at h
              exact absurd rfl h


/-- WHEN TOUCHED: in an isolated-margin futures session with an open position whose liquidation price lies in
    the candle's range, the check submits ONE order — MARKET, reduce-only, on the closing side, for the whole
    position, priced at the bankruptcy price — counts one liquidation, publishes the bigger timeframes up to the
    last stored minute (so that the position hooks read current candles, C07) and executes the order at once
    (hooks included). -/
theorem liquidation_when_touched (e : Engine M) (sym : Nat) (c last : Candle) (liq bk : Rat) (w' : World)
    (herr : e.err = none) (hiso : e.cfg.isolated = true) (hk : e.w.kind ≠ .spot) (hq : (posOf e sym).qty ≠ 0)
    (hliq : liquidationPrice (viewOf e sym) = .ok (some liq)) (hbk : bankruptcyPrice (viewOf e sym) = some bk)
    (htouch : candleIncludesPrice c liq)
    (hlast : (storeOf e sym).short.getLast? = some last)
    (hsub : Acc.submit e.w sym (if (posOf e sym).qty > 0 then Side.sell else Side.buy) .market (posOf e sym).qty bk true = .ok w') :
    checkLiquidation u e sym c =
      executeOrder u
        (updatePartialCandle
          (logE (logE { e with w := w', via := e.via ++ [none], storage := upd e.storage sym (· ++ [e.w.orders.length]),
                               liquidations := e.liquidations + 1 }
                  (Event.submit e.w.orders.length sym (Acc.getD w'.orders e.w.orders.length).side (Acc.getD w'.orders e.w.orders.length).type
                    (Acc.getD w'.orders e.w.orders.length).qty (Acc.getD w'.orders e.w.orders.length).price
                    (Acc.getD w'.orders e.w.orders.length).reduceOnly))
                (Event.liquidation sym))
          sym last)
        e.w.orders.length := by
  unfold checkLiquidation
  have h2 : ¬ (¬ e.cfg.isolated ∨ e.w.kind = .spot) := by
    intro h; rcases h with h | h
    · exact h hiso
    · exact hk h
  unfold viewOf at hliq hbk
  unfold storeOf at hlast
  simp only [herr, Option.isSome_none, Bool.false_eq_true, if_false, h2, hq, hliq, hbk, htouch, decide_true, if_true, hsub, storeOf, logE, hlast]


/-! ### which candle the check is given, and when

In the normal simulator the check of a minute runs ONCE, after every resting order of the minute has been matched
(with all the hooks those fills fire), on the state in which the minute is stored and the position is marked at the
minute's close — and it is given the minute candle the matching loop worked on (the jump-fixed row), not the raw row. -/

theorem minute_check_after_matching (fuel : Nat) (e : Engine M) (sym : Nat) (real : Candle) (h0 : e.err = none)
    (h1 : (matchLoop u fuel e sym real
        (let os := executingOrders e sym real; if os.length > 1 then sortExecutionOrders e os [real] else os)
        (fun (e : Engine M) (c : Candle) =>
          let os := executingOrders e sym c; if os.length > 1 then sortExecutionOrders e os [c] else os) false).1.err = none) :
    simulateMinute u fuel e sym real =
      checkLiquidation u
        (setCurrentPrice (addCandle (matchLoop u fuel e sym real
          (let os := executingOrders e sym real; if os.length > 1 then sortExecutionOrders e os [real] else os)
          (fun (e : Engine M) (c : Candle) =>
            let os := executingOrders e sym c; if os.length > 1 then sortExecutionOrders e os [c] else os) false).1 sym 1 real)
          sym real.c) sym real := by
  unfold simulateMinute
  simp only [h0, Option.isSome_none, Bool.false_eq_true, if_false]
  simp only at h1
  simp only [h1, Option.isSome_none, Bool.false_eq_true, if_false]

/-- a minute in which the matching loop fails ends there: no liquidation check on a broken state -/
theorem minute_no_check_after_error (fuel : Nat) (e : Engine M) (sym : Nat) (real : Candle) (h0 : e.err.isSome) :
    simulateMinute u fuel e sym real = e := by
  unfold simulateMinute
  simp [h0]

/-- the state after the per-minute matching of a chunk (untouched when no order lies inside the chunk's range) -/
def chunkMatched (fuel : Nat) (e : Engine M) (sym : Nat) (cs : List Candle) (real : Candle) : Engine M :=
  if (executingOrders e sym real).length > 0 then
    simulateChunk.perMinute u fuel sym real cs none e
      (if (executingOrders e sym real).length > 1 then sortExecutionOrders e (executingOrders e sym real) (fixChunk none cs)
       else executingOrders e sym real)
  else e

/-- FAST SIMULATOR: the check of a chunk runs ONCE, after the matching of all its minutes, on the state in which the
    whole chunk is stored and the clock stands at the end of the chunk — and it is given the AGGREGATE candle of the
    chunk (so a liquidation price touched by any minute of the chunk acts at the chunk's end) -/
theorem chunk_check_once_with_aggregate (fuel : Nat) (e : Engine M) (sym : Nat) (cs : List Candle) (real l : Candle)
    (short' : List Candle) (h0 : e.err = none) (hg : Store.generate 0 cs = .ok real)
    (h1 : (chunkMatched u fuel e sym cs real).err = none)
    (hadd : Store.addMultiple1m (storeOf (chunkMatched u fuel e sym cs real) sym).short cs = .ok short')
    (hl : cs.getLast? = some l) :
    simulateChunk u fuel e sym cs =
      setCurrentPrice (checkLiquidation u
        { chunkMatched u fuel e sym cs real with
            stores := Acc.upd (chunkMatched u fuel e sym cs real).stores sym (fun s => { s with short := short' }),
            time := real.ts + 60000 * cs.length } sym real) sym l.c := by
  unfold simulateChunk
  simp only [h0, Option.isSome_none, Bool.false_eq_true, if_false, hg]
  unfold chunkMatched at h1 hadd ⊢
  simp only [h1, Option.isSome_none, Bool.false_eq_true, if_false, hadd, hl]

end trigger


end C09
