/-
  Proofs/C19.lean — optimizer DNA decodes into in-range, typed, monotone hyperparameters
  (decoder part; statements about the GENERATED `convert_number` / per-gene body of `dna_to_hp`).
  PROPERTY THEOREMS ONLY.
-/
import Jesse.Dna
import Jesse.Gen.Tables
import Proofs.Lemmas.Round

namespace C19
open Jesse Jesse.Gen Jesse.Dna

/-- the affine map the decoder is supposed to compute: gene 40 ↦ min, gene 119 ↦ max -/
def affine (d : HpDecl) (g : Nat) : Rat := ((g : Rat) - 40) * (d.max - d.min) / 79 + d.min

/-- Full functional specification of the per-gene decoder on the alphabet `[40, 119]`. -/
theorem decode_spec (d : HpDecl) (g : Nat) (h1 : 40 ≤ g) (h2 : g ≤ 119) :
    decodeGene d g = match d.type with
      | .int => .ok ((roundHalfEven (affine d g) : Int) : Rat)
      | .float => .ok (affine d g)
      | .other => .error .TypeError := by
  have c1 : ¬ (((g : Nat) : Rat) > 119 ∨ ((g : Nat) : Rat) < 40) := by
    push Not
    constructor
    · exact_mod_cast h2
    · exact_mod_cast h1
  have e : convertNumber 119 40 d.max d.min ((g : Nat) : Rat) = .ok (affine d g) := by
    unfold convertNumber affine
    rw [if_neg c1]
    norm_num
  unfold decodeGene
  cases ht : d.type <;> simp [e]

/-- Outside the alphabet the decoder raises (it never extrapolates). -/
theorem decode_rejects_outside (d : HpDecl) (g : Nat) (h : g < 40 ∨ 119 < g) (ht : d.type ≠ .other) :
    decodeGene d g = .error .ValueError := by
  have c1 : (((g : Nat) : Rat) > 119 ∨ ((g : Nat) : Rat) < 40) := by
    rcases h with h | h
    · right; exact_mod_cast h
    · left; exact_mod_cast h
  unfold decodeGene convertNumber
  cases ht' : d.type <;> simp_all

theorem affine_between (d : HpDecl) (g : Nat) (hd : d.min ≤ d.max) (h1 : 40 ≤ g) (h2 : g ≤ 119) :
    d.min ≤ affine d g ∧ affine d g ≤ d.max := by
  unfold affine
  have a : (0 : Rat) ≤ (g : Rat) - 40 := by
    have : ((40 : Nat) : Rat) ≤ (g : Rat) := by exact_mod_cast h1
    push_cast at this; linarith
  have b : (g : Rat) - 40 ≤ 79 := by
    have : (g : Rat) ≤ ((119 : Nat) : Rat) := by exact_mod_cast h2
    push_cast at this; linarith
  have c : 0 ≤ d.max - d.min := by linarith
  constructor
  · have : 0 ≤ ((g : Rat) - 40) * (d.max - d.min) / 79 := by positivity
    linarith
  · have : ((g : Rat) - 40) * (d.max - d.min) / 79 ≤ d.max - d.min := by
      rw [div_le_iff₀ (by norm_num)]
      nlinarith
    linarith

/-- float parameters: the decoded value lies in [min, max]. -/
theorem in_range_float (d : HpDecl) (g : Nat) (ht : d.type = .float) (hd : d.min ≤ d.max)
    (h1 : 40 ≤ g) (h2 : g ≤ 119) :
    ∃ v, decodeGene d g = .ok v ∧ d.min ≤ v ∧ v ≤ d.max := by
  refine ⟨affine d g, ?_, affine_between d g hd h1 h2⟩
  rw [decode_spec d g h1 h2, ht]

/-- int parameters (integer bounds): the decoded value is an integer in [min, max]. -/
theorem in_range_int (d : HpDecl) (g : Nat) (lo hi : Int) (ht : d.type = .int)
    (hlo : d.min = lo) (hhi : d.max = hi) (hd : lo ≤ hi) (h1 : 40 ≤ g) (h2 : g ≤ 119) :
    ∃ n : Int, decodeGene d g = .ok (n : Rat) ∧ lo ≤ n ∧ n ≤ hi := by
  have hd' : d.min ≤ d.max := by rw [hlo, hhi]; exact_mod_cast hd
  obtain ⟨a, b⟩ := affine_between d g hd' h1 h2
  rw [hlo] at a; rw [hhi] at b
  refine ⟨roundHalfEven (affine d g), ?_, roundHalfEven_between a b⟩
  rw [decode_spec d g h1 h2, ht]

/-- endpoints: the first letter of the alphabet maps to min, the last to max. -/
theorem endpoints_float (d : HpDecl) (ht : d.type = .float) :
    decodeGene d 40 = .ok d.min ∧ decodeGene d 119 = .ok d.max := by
  constructor
  · rw [decode_spec d 40 (le_refl _) (by norm_num), ht]; simp [affine]
  · rw [decode_spec d 119 (by norm_num) (le_refl _), ht]; simp only [affine]; congr 1; push_cast; ring

theorem endpoints_int (d : HpDecl) (lo hi : Int) (ht : d.type = .int) (hlo : d.min = lo) (hhi : d.max = hi) :
    decodeGene d 40 = .ok (lo : Rat) ∧ decodeGene d 119 = .ok (hi : Rat) := by
  constructor
  · rw [decode_spec d 40 (le_refl _) (by norm_num), ht]
    have : affine d 40 = (lo : Rat) := by simp [affine, hlo]
    simp [this, roundHalfEven_intCast]
  · rw [decode_spec d 119 (by norm_num) (le_refl _), ht]
    have : affine d 119 = (hi : Rat) := by simp only [affine, hhi, hlo]; push_cast; ring
    simp [this, roundHalfEven_intCast]

theorem affine_mono (d : HpDecl) (g₁ g₂ : Nat) (hd : d.min ≤ d.max) (h : g₁ ≤ g₂) :
    affine d g₁ ≤ affine d g₂ := by
  unfold affine
  have : (g₁ : Rat) ≤ (g₂ : Rat) := by exact_mod_cast h
  have c : 0 ≤ d.max - d.min := by linarith
  have : ((g₁ : Rat) - 40) * (d.max - d.min) ≤ ((g₂ : Rat) - 40) * (d.max - d.min) :=
    mul_le_mul_of_nonneg_right (by linarith) c
  have := div_le_div_of_nonneg_right this (by norm_num : (0 : Rat) ≤ 79)
  linarith

/-- monotone in the gene, for both types (through half-to-even rounding for ints). -/
theorem monotone (d : HpDecl) (g₁ g₂ : Nat) (hd : d.min ≤ d.max) (ht : d.type ≠ .other)
    (h1 : 40 ≤ g₁) (h12 : g₁ ≤ g₂) (h2 : g₂ ≤ 119) :
    ∃ v₁ v₂, decodeGene d g₁ = .ok v₁ ∧ decodeGene d g₂ = .ok v₂ ∧ v₁ ≤ v₂ := by
  have m := affine_mono d g₁ g₂ hd h12
  rw [decode_spec d g₁ h1 (le_trans h12 h2), decode_spec d g₂ (le_trans h1 h12) h2]
  cases ht' : d.type
  · refine ⟨_, _, rfl, rfl, ?_⟩
    exact_mod_cast roundHalfEven_mono m
  · exact ⟨_, _, rfl, rfl, m⟩
  · exact absurd ht' ht

/-- positional: value i of the decoded list is the decoding of gene i under declaration i alone,
    and the result has one value per (gene, declaration) pair (zip truncation). -/
theorem positional (hs : List HpDecl) (dna : List Nat) (vs : List Rat)
    (h : dnaToHp hs dna = .ok vs) :
    vs.length = min hs.length dna.length ∧
    ∀ i (hi : i < vs.length) (h1 : i < hs.length) (h2 : i < dna.length),
      decodeGene hs[i] dna[i] = .ok vs[i] := by
  induction dna generalizing hs vs with
  | nil => simp [dnaToHp] at h; subst h; simp
  | cons g gs ih =>
    cases hs with
    | nil => simp [dnaToHp] at h; subst h; simp
    | cons d ds =>
      simp only [dnaToHp] at h
      cases hg : decodeGene d g with
      | error e => simp [hg] at h
      | ok v =>
        simp only [hg] at h
        cases hr : dnaToHp ds gs with
        | error e => simp [hr] at h
        | ok rest =>
          simp only [hr] at h
          injection h with h; subst h
          obtain ⟨l, p⟩ := ih ds rest hr
          constructor
          · simp [l]
          · intro i hi h1 h2
            cases i with
            | zero => simpa using hg
            | succ j => simpa using p j (by simpa using hi) (by simpa using h1) (by simpa using h2)

/-- the optimizer's alphabet is exactly the 80 consecutive code points 40 … 119 -/
theorem charset_is_40_to_119 : charsetCodes = List.range' 40 80 := by decide +kernel

/-- every letter of the alphabet decodes (no letter is rejected) for int and float declarations -/
theorem alphabet_decodes (d : HpDecl) (ht : d.type ≠ .other) :
    ∀ g ∈ charsetCodes, ∃ v, decodeGene d g = .ok v := by
  intro g hg
  rw [charset_is_40_to_119] at hg
  have hb : 40 ≤ g ∧ g ≤ 119 := by
    rw [List.mem_range'_1] at hg; omega
  rw [decode_spec d g hb.1 hb.2]
  cases ht' : d.type
  · exact ⟨_, rfl⟩
  · exact ⟨_, rfl⟩
  · exact absurd ht' ht

/-- Precedence, per route and for any number of routes: explicit values win over dna(), dna() over
    the declared defaults, and each route's values come from its own strategy only. -/
theorem precedence (explicit : Hp) (routes : List StratDecl) (hps : List Hp)
    (h : prepareRoutes explicit routes = .ok hps) :
    hps.length = routes.length ∧
    ∀ i (h1 : i < routes.length) (h2 : i < hps.length),
      (∀ v, explicit = some v → hps[i] = some v) ∧
      (explicit = none → routes[i].dna ≠ [] → ∃ v, dnaToHp routes[i].decls routes[i].dna = .ok v ∧ hps[i] = some v) ∧
      (explicit = none → routes[i].dna = [] → routes[i].decls ≠ [] → hps[i] = some routes[i].defaults) ∧
      (explicit = none → routes[i].dna = [] → routes[i].decls = [] → hps[i] = none) := by
  induction routes generalizing hps with
  | nil => simp [prepareRoutes] at h; subst h; simp
  | cons s rest ih =>
    simp only [prepareRoutes] at h
    cases h1 : prepareRoute explicit s with
    | error e => simp [h1] at h
    | ok hp =>
      simp only [h1] at h
      cases h2 : prepareRoutes explicit rest with
      | error e => simp [h2] at h
      | ok hs =>
        simp only [h2] at h
        injection h with h; subst h
        obtain ⟨l, p⟩ := ih hs h2
        refine ⟨by simp [l], ?_⟩
        intro i hi1 hi2
        cases i with
        | succ j => simpa using p j (by simpa using hi1) (by simpa using hi2)
        | zero =>
          simp only [List.getElem_cons_zero]
          unfold prepareRoute at h1
          refine ⟨?_, ?_, ?_, ?_⟩
          · intro v hv; subst hv; simp at h1; exact h1.symm
          · intro he hd; subst he
            have : s.dna.length > 0 := List.length_pos_iff.mpr hd
            simp only [this, true_and, if_true] at h1
            cases hdec : dnaToHp s.decls s.dna with
            | error e => simp [hdec] at h1
            | ok v => simp [hdec] at h1; exact ⟨v, rfl, h1.symm⟩
          · intro he hd hne; subst he
            have : ¬ s.dna.length > 0 := by simp [hd]
            have h3 : s.decls.length > 0 := List.length_pos_iff.mpr hne
            simp [this, h3] at h1; exact h1.symm
          · intro he hd hne; subst he
            have : ¬ s.dna.length > 0 := by simp [hd]
            simp [this, hne] at h1; exact h1.symm

/-- non-vacuity: a concrete declaration and gene -/
example : decodeGene { type := .int, min := 0, max := 30 } 79 = .ok 15 := by decide +kernel
example : prepareRoutes none
    [{ decls := [{ type := .int, min := 0, max := 100 }], defaults := [7], dna := [119] },
     { decls := [{ type := .int, min := 0, max := 100 }], defaults := [7], dna := [] }]
    = .ok [some [100], some [7]] := by decide +kernel
example : dnaToHp [{ type := .int, min := 0, max := 30 }, { type := .float, min := -1, max := 1 }] [79, 119]
    = .ok [15, 1] := by decide +kernel

end C19
