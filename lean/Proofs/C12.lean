/-
  Proofs/C12.lean — fast mode reproduces the normal simulation when fills are unambiguous
  (theorems over the engine model).
-/
import Jesse.Engine

namespace C12
open Jesse Jesse.Eng

/-- with a single 1m route the fast simulator's step is one minute -/
theorem step_one_minute : gcdList [1] = 1 := by decide

end C12
