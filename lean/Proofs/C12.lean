/-
  Proofs/C12.lean — fast mode reproduces the normal simulation when fills are unambiguous
  (theorems over the engine model; helper lemmas in Proofs/Lemmas/Quiet.lean).
  PROPERTY THEOREMS ONLY.

  FULL STATEMENT (property C12): for a single-symbol session in which the normal simulation never fills more
  than one resting order inside one trading-candle span and no liquidation occurs, the fast simulator produces
  the same executed orders, closed trades and final balances.  PROVED HERE (partial): the two simulators leave
  the same trading state over every span in which NO resting order is reachable — i.e. fills are the only
  source of divergence; the spans that do contain (one) fill are decided by the paired-run oracle and the
  per-simulator correspondence (see evidence.unproved).
-/
import Proofs.Lemmas.Quiet
import Proofs.C02
import Proofs.C07

namespace C12
open Jesse Jesse.Eng Jesse.Gen Jesse.Acc QuietLemmas

variable {M : Type} [Inhabited M] (u : UserStrategy M)

/-- with a single 1m route the fast simulator's step is one minute -/
theorem step_one_minute : gcdList [1] = 1 := by decide

/-- QUIET MINUTE (normal simulator): a minute in which no active order of the symbol has its price inside the
    candle and no liquidation is possible only stores the candle and moves the current price — accounts,
    orders, strategy states and the trace are untouched, for every strategy. -/
theorem quiet_minute_partial (fuel : Nat) (e : Engine M) (sym : Nat) (c : Candle) (herr : e.err = none)
    (hq : executingOrders e sym c = []) (hl : NoLiq e sym) :
    simulateMinute u (fuel + 1) e sym c = setCurrentPrice (addCandle e sym 1 c) sym c.c :=
  quiet_minute u fuel e sym c herr hq hl

/-- QUIET CHUNK (fast simulator): a chunk whose aggregate candle contains no resting price only stores the
    candles, moves the clock and the current price. -/
theorem quiet_chunk_partial (fuel : Nat) (e : Engine M) (sym : Nat) (cs : List Candle) (real last : Candle) (short' : List Candle)
    (herr : e.err = none) (hgen : Store.generate 0 cs = .ok real) (hq : executingOrders e sym real = [])
    (hl : NoLiq e sym) (hadd : Store.addMultiple1m (storeOf e sym).short cs = .ok short') (hlast : cs.getLast? = some last) :
    simulateChunk u fuel e sym cs =
      setCurrentPrice { e with stores := upd e.stores sym (fun s => { s with short := short' }),
                               time := real.ts + 60000 * cs.length } sym last.c :=
  quiet_chunk u fuel e sym cs real last short' herr hgen hq hl hadd hlast

/-- BOTH SIMULATORS AGREE OVER A QUIET SPAN: for a chunk of valid candles (first row already jump-fixed, as both
    simulators do) whose aggregate candle contains no resting price of the symbol, with no liquidation
    possible: the step simulator — minute by minute over the rows it sees (every later row jump-fixed against
    its predecessor) — and the fast simulator — the chunk at once — end in the SAME trading state: accounts
    incl. current price, orders, strategy states, pending market orders, trace, error flag, equity samples. -/
theorem quiet_span_agree_partial (fuel : Nat) (e : Engine M) (sym : Nat) (cs : List Candle) (real last : Candle)
    (short' : List Candle) (herr : e.err = none) (hv : ∀ c ∈ cs, c.Valid) (hgen : Store.generate 0 cs = .ok real)
    (hq : executingOrders e sym real = []) (hl : NoLiq e sym)
    (hadd : Store.addMultiple1m (storeOf e sym).short cs = .ok short') (hlast : cs.getLast? = some last) :
    let r := (stepRows cs).foldl (stepMinute u fuel sym) e
    let f := simulateChunk u fuel e sym cs
    r.w = f.w ∧ r.log = f.log ∧ r.strat = f.strat ∧ r.toExecute = f.toExecute ∧ r.err = f.err ∧ r.via = f.via
    ∧ r.storage = f.storage ∧ r.liquidations = f.liquidations ∧ r.daily = f.daily := by
  obtain ⟨hin, hc⟩ := stepRows_within cs real hv hgen
  exact quiet_span_agree u fuel e sym cs (stepRows cs) real last short' herr hgen hq hl hadd hlast hin
    (by rw [hc, hlast]; rfl)

/-! ### non-vacuity: the engine of C02's example (resting buys at 97 and 103) and a two-minute chunk inside (99, 101) -/

def quietChunk : List Candle := [⟨60000, 100, 100.5, 101, 99.5, 1⟩, ⟨120000, 100.5, 100, 100.75, 99.75, 1⟩]
def quietReal : Candle := ⟨60000, 100, 100, 101, 99.5, 2⟩

example : C02.demoEngine.err = none ∧ (∀ c ∈ quietChunk, c.Valid) ∧ Store.generate 0 quietChunk = .ok quietReal
    ∧ executingOrders C02.demoEngine 0 quietReal = [] ∧ NoLiq C02.demoEngine 0
    ∧ Store.addMultiple1m (storeOf C02.demoEngine 0).short quietChunk = .ok quietChunk
    ∧ quietChunk.getLast? = some ⟨120000, 100.5, 100, 100.75, 99.75, 1⟩ := by
  refine ⟨by decide +kernel, by decide +kernel, by decide +kernel, by decide +kernel, ?_, by decide +kernel, by decide +kernel⟩
  left; left; decide +kernel

/-- and the conclusion is not trivial: both simulators moved the current price to the last close -/
example : ((simulateChunk C02.idle 50 C02.demoEngine 0 quietChunk).w.pos.map (·.current)) = [some 100] := by decide +kernel

/-! ### the candle stores of two runs

The run-level invariant of C07 (`EInv`, kept by both simulators for every strategy: `C07.runStepN_all`,
`C07.runSkipN_all`) determines what a reader gets from the store, and on a window boundary the stored arrays
themselves.  So two engines — with different strategy memories, different order books, different histories of fills,
e.g. the normal and the fast run of one session — whose 1m arrays hold the same minutes cannot differ in any candle a
strategy can read. -/

theorem stores_agree {M M' : Type} [Inhabited M] [Inhabited M'] (eA : Engine M) (eB : Engine M') (sym : Nat) (t0 : Int)
    (rows : List Candle) (m : Nat)
    (hcfg : C07.tfsRaw eB.cfg sym = C07.tfsRaw eA.cfg sym) (hal : C07.AlignedCfg eA.cfg sym t0)
    (hA : C07.EInv eA sym t0 rows) (hB : C07.EInv eB sym t0 rows) (hm : m ∈ C07.tfsRaw eA.cfg sym) :
    (storeOf eA sym).short = (storeOf eB sym).short ∧
    Store.getCandles (storeOf eA sym).short (longOf (storeOf eA sym) m) m
      = Store.getCandles (storeOf eB sym).short (longOf (storeOf eB sym) m) m ∧
    Store.getCurrentCandle (storeOf eA sym).short (longOf (storeOf eA sym) m) m
      = Store.getCurrentCandle (storeOf eB sym).short (longOf (storeOf eB sym) m) m ∧
    (rows.length % m = 0 → longOf (storeOf eA sym) m = longOf (storeOf eB sym) m) := by
  have halB : C07.AlignedCfg eB.cfg sym t0 := by
    unfold C07.AlignedCfg at hal ⊢
    rw [hcfg]; exact hal
  have hmB : m ∈ C07.tfsRaw eB.cfg sym := by rw [hcfg]; exact hm
  obtain ⟨a1, a2⟩ := C07.reader_sees_aggregates eA sym t0 rows m hal hA hm
  obtain ⟨b1, b2⟩ := C07.reader_sees_aggregates eB sym t0 rows m halB hB hmB
  refine ⟨hA.short.trans hB.short.symm, a1.trans b1.symm, a2.trans b2.symm, ?_⟩
  intro hb
  obtain ⟨pa, hla, hpa⟩ := hA.inv m hm
  obtain ⟨pb, hlb, hpb⟩ := hB.inv m hmB
  have ea : pa = [] := by
    rcases hpa with h | ⟨_, _, _, hne, _⟩
    · exact h
    · exact absurd hb hne
  have eb : pb = [] := by
    rcases hpb with h | ⟨_, _, _, hne, _⟩
    · exact h
    · exact absurd hb hne
  rw [hla, hlb, ea, eb]

/-! ### the minutes the fast simulator walks ARE the minutes the normal simulator stores

`fixChunk` (the chunk's minutes as the fast simulator sorts and matches them: each fixed against the previous RAW
minute) and `C07.fixChain` (the rows the normal simulator writes back and stores: each fixed against the previous FIXED
row) are the same list — the jump fix reads nothing of the previous candle but its close, which it never changes. -/

theorem fixJump_prev_close (p q x : Candle) (h : p.c = q.c) : fixJump p x = fixJump q x := by
  unfold fixJump; rw [h]

theorem fixChunk_eq_fixChain (cs : List Candle) : ∀ (p q : Candle), p.c = q.c → fixChunk (some p) cs = C07.fixChain q cs := by
  induction cs with
  | nil => intro _ _ _; rfl
  | cons c cs ih =>
    intro p q h
    have hc : c.c = (fixJump q c).c :=
      ((C07.fix_jump_spec q c).elim (fun h => h.2.1) (fun h => by rw [h.2])).symm
    simp only [fixChunk, C07.fixChain]
    rw [fixJump_prev_close p q c h, ih c (fixJump q c) hc]

/-- for a whole chunk: the first minute as it comes, the others as the normal simulator would store them -/
theorem chunk_path_is_normal_rows (c0 : Candle) (rest : List Candle) :
    fixChunk none (c0 :: rest) = c0 :: C07.fixChain c0 rest := by
  simp only [fixChunk]
  rw [fixChunk_eq_fixChain rest c0 c0 rfl]

end C12
