/-
  Proofs/C14.lean — sequential and single-value indicator results agree.
  `standard_wrapper`: for EVERY length-preserving kernel under the standard wrapper
  (`slice_candles` + `res if sequential else res[-1]`) the three clauses of C14 hold;
  `len_<name>`: the modelled kernels are length preserving; `table_standard`: every public
  indicator's wrapper, as re-read from the source on every run (Jesse/Gen/IndWrappers.lean), has the
  standard shape or is in the documented exemption list.
  PROPERTY THEOREMS ONLY (helpers in Proofs/Lemmas/Wrapper.lean, Causal.lean).
-/
import Proofs.Lemmas.Wrapper
import Jesse.Ind.MA
import Jesse.Ind.Simple
import Jesse.Ind.WrapperExempt
import Jesse.Ind.Osc
import Jesse.Ind.Dir
import Jesse.Ind.Off

namespace C14
open Jesse Jesse.Ind

/-- C14 for the standard wrapper around any length-preserving kernel `K`:
    (1) the sequential result has one entry per candle;
    (2) its last entry is the non-sequential result on the same input, for inputs of at most 240 candles;
    (3) the non-sequential result on any input is the last entry of the sequential result computed
        on the trailing 240 candles. -/
theorem standard_wrapper {α β} (K : List α → List β) (hK : LenPres K) (cs : List α) :
    (wrap K true cs).len = cs.length
    ∧ (cs.length ≤ warmup → (wrap K true cs).last = (wrap K false cs).last)
    ∧ (wrap K false cs).last = (wrap K true (lastN warmup cs)).last := by
  refine ⟨?_, ?_, ?_⟩
  · simp [wrap, Res.len, sliceCandles_true, hK cs]
  · intro h
    simp [wrap, Res.last, sliceCandles_true, sliceCandles_false, lastN_of_le _ _ h]
  · simp [wrap, Res.last, sliceCandles_true, sliceCandles_false]

/-- non-vacuity: the hypothesis is satisfiable and clause (2) really needs `≤ 240`:
    for a kernel that is not a function of the last 240 rows (a running sum) the last sequential
    entry on 241 rows differs from the single value -/
example : (wrap (scanState (fun (s : Nat) (x : Nat) => (s + x, s + x)) 0) true (List.replicate 241 1)).last
    ≠ (wrap (scanState (fun (s : Nat) (x : Nat) => (s + x, s + x)) 0) false (List.replicate 241 1)).last := by
  decide +kernel

/-! ### length preservation of the modelled kernels -/

theorem len_sma (p : Nat) : LenPres (sma p) := lenPres_trailing _ _
theorem len_ema (p : Nat) : LenPres (ema p) := lenPres_scanState _ _
theorem len_wma (p : Nat) : LenPres (wma p) := lenPres_trailing _ _
theorem len_smma (p : Nat) : LenPres (smma p) := lenPres_pmap _
theorem len_wilders (p : Nat) : LenPres (wilders p) := lenPres_scanState _ _
theorem len_rma (p : Nat) : LenPres (rma p) := fun xs => by simp [rma, rmaR, length_scanState]
theorem len_dema (p : Nat) : LenPres (dema p) := fun xs => by
  simp [dema, demaR, ema0, length_scanState]
theorem len_tema (p : Nat) : LenPres (tema p) := fun xs => by
  simp [tema, temaR, ema0, length_scanState]
theorem len_trima (p : Nat) : LenPres (trima p) := lenPres_trailing _ _
theorem len_roc (p : Nat) : LenPres (roc p) := lenPres_pmap _
theorem len_mom (p : Nat) : LenPres (mom p) := lenPres_pmap _
theorem len_obv : LenPres obv := lenPres_scanState _ _
theorem len_avgprice : LenPres avgprice := lenPres_map _
theorem len_medprice : LenPres medprice := lenPres_map _
theorem len_typprice : LenPres typprice := lenPres_map _
theorem len_wclprice : LenPres wclprice := lenPres_map _
theorem len_donchian_upper (p : Nat) : LenPres (donchianUpper p) := lenPres_trailing _ _
theorem len_donchian_middle (p : Nat) : LenPres (donchianMiddle p) := lenPres_trailing _ _
theorem len_donchian_lower (p : Nat) : LenPres (donchianLower p) := lenPres_trailing _ _
theorem len_willr (p : Nat) : LenPres (willr p) := lenPres_trailing _ _
theorem len_trange : LenPres trange := fun cs => by simp [trange, trR, length_scanState]
theorem len_atr (p : Nat) : LenPres (atr p) := fun cs => by simp [atr, seeded, trR, length_scanState]

theorem len_rsi (p : Nat) : LenPres (rsi p) := lenPres_scanState _ _
theorem len_macd_line (f s : Nat) : LenPres (macdLine f s) := fun xs => by simp [macdLine, ema0, length_scanState]
theorem len_macd_signal (f s g : Nat) : LenPres (macdSignal f s g) := fun xs => by
  simp [macdSignal, macdLine, ema0, length_scanState]
theorem len_macd_hist (f s g : Nat) : LenPres (macdHist f s g) := fun xs => by
  simp [macdHist, macdSignal, macdLine, ema0, length_scanState]
theorem len_stoch_k (fk sk : Nat) : LenPres (stochK fk sk) := fun cs => by simp [stochK, smaO, stochRaw, trailing, length_pmap]
theorem len_stoch_d (fk sk sd : Nat) : LenPres (stochD fk sk sd) := fun cs => by
  simp [stochD, stochK, smaO, stochRaw, trailing, length_pmap]
theorem len_stochf_k (p : Nat) : LenPres (stochfK p) := lenPres_pmap _
theorem len_stochf_d (p fd : Nat) : LenPres (stochfD p fd) := fun cs => by simp [stochfD, stochfK, smaO, trailing, length_pmap]
theorem len_cci (p : Nat) : LenPres (cci p) := fun cs => by simp [cci, trailing, length_pmap]
theorem len_mfi (p : Nat) : LenPres (mfi p) := fun cs => by simp [mfi, mfiFlows, trailing, length_pmap]
theorem len_stddev (sqrt : Rat → Rat) (p : Nat) (nb : Rat) : LenPres (stddev sqrt p nb) := lenPres_trailing _ _
theorem len_var (p : Nat) (nb : Rat) : LenPres (var p nb) := lenPres_trailing _ _
theorem len_bollinger (sqrt : Rat → Rat) (p : Nat) (du dd : Rat) :
    LenPres (bbUpper sqrt p du) ∧ LenPres (bbMiddle p) ∧ LenPres (bbLower sqrt p dd) :=
  ⟨fun xs => by simp [bbUpper, bbDev, sma, trailing, length_pmap], len_sma p,
   fun xs => by simp [bbLower, bbDev, sma, trailing, length_pmap]⟩
theorem len_keltner (p : Nat) (m : Rat) (s : Source) :
    LenPres (keltnerUpper p m s) ∧ LenPres (keltnerMiddle p s) ∧ LenPres (keltnerLower p m s) :=
  ⟨fun cs => by simp [keltnerUpper, ema, atr, seeded, trR, source, length_scanState],
   fun cs => by simp [keltnerMiddle, ema, seeded, source, length_scanState],
   fun cs => by simp [keltnerLower, ema, atr, seeded, trR, source, length_scanState]⟩
theorem len_dm (p : Nat) : LenPres (dmPlus p) ∧ LenPres (dmMinus p) :=
  ⟨fun cs => by simp [dmPlus, dmPairs, length_scanState], fun cs => by simp [dmMinus, dmPairs, length_scanState]⟩
theorem len_di (p : Nat) : LenPres (diPlus p) ∧ LenPres (diMinus p) :=
  ⟨fun cs => by simp [diPlus, diPairs, length_scanState], fun cs => by simp [diMinus, diPairs, length_scanState]⟩
theorem len_dx (dl sm : Nat) : LenPres (dxPlusDI dl) ∧ LenPres (dxMinusDI dl) ∧ LenPres (dxAdx dl sm) :=
  ⟨fun cs => by simp [dxPlusDI, dxDI, rmaR, dmtr, length_scanState],
   fun cs => by simp [dxMinusDI, dxDI, rmaR, dmtr, length_scanState],
   fun cs => by simp [dxAdx, dxIndex, dxPlusDI, dxMinusDI, dxDI, rmaR, dmtr, length_scanState]⟩
theorem len_adx (p : Nat) : LenPres (adx p) := lenPres_scanState _ _
theorem len_emd (p : Nat) (fr a b : Rat) :
    LenPres (emdUpper fr a b) ∧ LenPres (emdMiddle p a b) ∧ LenPres (emdLower fr a b) :=
  ⟨fun cs => by simp [emdUpper, emdPeak, emdBp, hl2, sma, trailing, length_pmap, length_scanState],
   fun cs => by simp [emdMiddle, emdBp, hl2, sma, trailing, length_pmap, length_scanState],
   fun cs => by simp [emdLower, emdPeak, emdBp, hl2, sma, trailing, length_pmap, length_scanState]⟩
theorem len_lrsi (al : Rat) : LenPres (lrsi al) := fun cs => by simp [lrsi, lrsiR, hl2, length_scanState]
theorem len_mab (sqrt : Rat → Rat) (fp sp : Nat) (du dd : Rat) :
    LenPres (mabUpper sqrt fp sp du) ∧ LenPres (mabMiddle fp) ∧ LenPres (mabLower sqrt fp sp dd) :=
  ⟨fun xs => by simp [mabUpper, sma, trailing, length_pmap], len_sma fp,
   fun xs => by simp [mabLower, sma, trailing, length_pmap]⟩
theorem len_minmax (o : Nat) :
    LenPres (minmaxIsMin o) ∧ LenPres (minmaxIsMax o) ∧ LenPres (minmaxLastMin o) ∧ LenPres (minmaxLastMax o) :=
  ⟨fun cs => by simp [minmaxIsMin, extrema, length_imap], fun cs => by simp [minmaxIsMax, extrema, length_imap],
   fun cs => by simp [minmaxLastMin, minmaxIsMin, ffill, extrema, length_imap, length_scanState],
   fun cs => by simp [minmaxLastMax, minmaxIsMax, ffill, extrema, length_imap, length_scanState]⟩

/-- `er` is length preserving only for inputs longer than the period (`same_length` pads the front);
    for shorter inputs the real function raises -/
theorem len_er (p : Nat) (xs : List Rat) (h : p ≤ xs.length) : (er p xs).length = xs.length := by
  have hd : ∀ (n : Nat) (ys : List Rat), (diffN n ys).length = ys.length - n := by
    intro n
    induction n with
    | zero => intro ys; simp [diffN]
    | succ n ih =>
      intro ys
      simp only [diffN]
      rw [ih]
      simp [diff1]
      omega
  unfold er padFront
  simp only [List.length_append, List.length_replicate, List.length_map, hd]
  omega

/-- length preservation is kept by reading any candle source first -/
theorem len_any_source {K : List Rat → Ser} (hK : LenPres K) (s : Source) :
    LenPres (fun cs : List Candle => K (source s cs)) := lenPres_on_source hK s

/-! ### the wrapper-shape table, re-read from /repo/jesse/indicators on every run -/

/-- every public indicator either has the standard wrapper (`E if sequential else E[-1]`, field by
    field, possibly NaN-padded in front, behind `slice_candles(candles, sequential)`), or is one of the
    documented exemptions with exactly its pinned shape (minmax: `-(order + 1)`; donchian, aroon, … compute the
    two modes separately; lrsi, cfo, … return None for NaN), or has no sequential mode -/
theorem table_standard : ∀ e ∈ Jesse.Gen.indWrappers, wrapperOk e = true := by decide +kernel

/-- the table is not empty and the exemption list is used (non-vacuity) -/
theorem table_covers : Jesse.Gen.indWrappers.length ≥ 170 ∧ (Jesse.Gen.indWrappers.filter (fun e => e.standard)).length ≥ 140 := by
  decide +kernel

end C14
