/-
  Proofs/C06.lean — position events and the trade log (theorems over the accounts / engine model).
-/
import Jesse.Engine

namespace C06
open Jesse Jesse.Eng

/-- placeholder (trade-log theorems follow) -/
theorem fmt_none : fmt none = [] := rfl

end C06
