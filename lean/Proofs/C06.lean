/-
  Proofs/C06.lean — position events and the trade log are a faithful record of the fills
  (theorems over the accounts model; helper lemmas in Proofs/Lemmas/TradeLog.lean).
  PROPERTY THEOREMS ONLY.
-/
import Proofs.Lemmas.TradeLog

namespace C06
open Jesse Jesse.Acc Jesse.Gen TradeLogLemmas

/-- ONE FILL (futures, one symbol): executing a legal order on a well-formed world
    * keeps the world well-formed (position size = recorded buys − recorded sells, a flat position has
      an empty running trade, an open one has a running trade of the position's side),
    * appends the order to the running trade's order list and its (|qty|, price) row to the buy or sell rows,
    * produces EXACTLY ONE closed trade — the running one, with this order as its last — when the fill
      brings the position to zero, and none otherwise,
    * leaves the ledger  wallet − Σ net PnL of closed trades − open-cycle term  unchanged. -/
theorem fill_step (w : World) (p : Pos) (t : Trade) (id : Nat) (o : Order) (hI : Inv w p t) (hL : Legal p o)
    (ho : w.orders[id]? = some o) (ha : o.status = .active) :
    ∃ p' t', Inv (execute w id) p' t'
      ∧ ledger (execute w id) = ledger w
      ∧ p'.qty = p.qty + o.qty
      ∧ (execute w id).trades = (if p.qty + o.qty = 0 then w.trades ++ [recorded t o] else w.trades)
      ∧ (p.qty + o.qty ≠ 0 → t'.orders = t.orders ++ [o.id] ∧ t'.buys = (recorded t o).buys ∧ t'.sells = (recorded t o).sells) :=
  fill_step_main w p t id o hI hL ho ha

/-- EVERY HISTORY: after any sequence of legal fills (each order legal against the position it meets)
    the world is still well-formed and the ledger is what it was at the start. -/
theorem history_ledger (w : World) (p : Pos) (t : Trade) (hI : Inv w p t) (ids : List Nat)
    (hlegal : LegalRun w ids) :
    ∃ p' t', Inv (ids.foldl execute w) p' t' ∧ ledger (ids.foldl execute w) = ledger w :=
  history_main w p t hI ids hlegal

/-- NET PROFIT = WALLET CHANGE: start flat with nothing recorded, apply any legal history; whenever the
    position is flat again, the wallet has changed by exactly the sum of the net PnL (profit minus
    fees) of the closed trades produced since — so `net_profit` and `finishing_balance` agree. -/
theorem net_pnl_equals_wallet_change (w : World) (p : Pos) (hI : Inv w p {}) (hflat : p.qty = 0) (ids : List Nat)
    (hlegal : LegalRun w ids) (p' : Pos) (t' : Trade) (hI' : Inv (ids.foldl execute w) p' t') (hflat' : p'.qty = 0) :
    (ids.foldl execute w).wallet - w.wallet = closedPnl (ids.foldl execute w) - closedPnl w :=
  net_pnl_main w p hI hflat ids hlegal p' t' hI' hflat'

/-- A CLOSED TRADE'S PnL IS THAT OF ITS FILLS: for a trade whose buy and sell quantities match (what
    `fill_step` guarantees at the closing fill), `ClosedTrade.pnl` — computed from the quantity-weighted
    entry and exit prices — equals sells' notional − buys' notional − fee × (both notionals). -/
theorem closed_trade_pnl (fee : Rat) (t : Trade) (ty : PosType) (hty : t.type = some ty) (hne : ty ≠ .close)
    (hq : qtySum t.buys = qtySum t.sells) (hpos : 0 < qtySum t.buys) :
    Trade.pnl fee t = notional t.sells - notional t.buys - fee * (notional t.buys + notional t.sells) :=
  closed_pnl_main fee t ty hty hne hq hpos

end C06

namespace C06
open Jesse Jesse.Acc Jesse.Gen TradeLogLemmas

/-! ### non-vacuity: buy 2 @ 100, take profit 1 @ 110, stop 1 @ 90 (fee 0.1 %) -/

def ok (r : Except (Err × World) World) : World := match r with | .ok w => w | .error (_, w) => w

def demo : World :=
  let w0 := Acc.init .futures 10000 (1/1000) 1 1
  let w1 := ok (Acc.submit w0 0 .buy .limit 2 100 false)
  let w2 := ok (Acc.submit w1 0 .sell .limit 1 110 true)
  ok (Acc.submit w2 0 .sell .stop 1 90 true)

example : Inv demo {} {} := by
  constructor
  · decide +kernel
  · decide +kernel
  · decide +kernel
  · decide +kernel
  · intro _; exact ⟨rfl, rfl⟩
  · intro h; exact absurd rfl h
  · intro r hr; cases hr
  · intro r hr; cases hr

/-- the three fills are a legal run: open, reduce, close -/
example : LegalRun demo [0, 1, 2] := by
  refine ⟨⟨⟨0, 0, .buy, .limit, 2, 100, false, .active⟩, by decide +kernel, by decide +kernel, ?_⟩,
          ⟨⟨1, 0, .sell, .limit, -1, 110, true, .active⟩, by decide +kernel, by decide +kernel, ?_⟩,
          ⟨⟨2, 0, .sell, .stop, -1, 90, true, .active⟩, by decide +kernel, by decide +kernel, ?_⟩, trivial⟩
  all_goals (constructor <;> decide +kernel)

/-- one closed trade (orders 0, 1, 2), flat again, and the wallet moved by exactly its net PnL:
    110 + 90 − 200 − 0.1 % × (200 + 200) = −0.4 -/
example : ([0, 1, 2].foldl execute demo).trades.map (·.orders) = [[0, 1, 2]]
    ∧ (getD ([0, 1, 2].foldl execute demo).pos 0).qty = 0
    ∧ ([0, 1, 2].foldl execute demo).wallet - demo.wallet = -2/5
    ∧ closedPnl ([0, 1, 2].foldl execute demo) - closedPnl demo = -2/5 := by
  decide +kernel

end C06
