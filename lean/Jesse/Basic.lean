/-
  Jesse/Basic.lean — shared vocabulary of the Jesse-in-Lean model.
  Core Lean only (no Mathlib): this file is imported by the line-protocol driver.
-/

namespace Jesse

/-- jesse's candle row: `[timestamp, open, close, high, low, volume]` (column order of the code). -/
structure Candle where
  ts : Int
  o : Rat
  c : Rat
  h : Rat
  l : Rat
  v : Rat
deriving DecidableEq, Repr, Inhabited

/-- A candle is valid when low ≤ open, close ≤ high. -/
def Candle.Valid (k : Candle) : Prop :=
  k.l ≤ k.o ∧ k.o ≤ k.h ∧ k.l ≤ k.c ∧ k.c ≤ k.h

instance (k : Candle) : Decidable k.Valid := by unfold Candle.Valid; infer_instance

/-- Error kinds the modelled Python code raises (canonical small enum, see DESIGN 2.5). -/
inductive Err where
  | ValueError | TypeError | IndexError | KeyError
  | InsufficientMargin | InsufficientBalance | OrderNotAllowed | InvalidStrategy
  | EmptyPosition | OpenPositionError | InvalidTimeframe | NotImplemented | Other
deriving DecidableEq, Repr, Inhabited

def Err.name : Err → String
  | .ValueError => "ValueError" | .TypeError => "TypeError" | .IndexError => "IndexError"
  | .KeyError => "KeyError" | .InsufficientMargin => "InsufficientMargin"
  | .InsufficientBalance => "InsufficientBalance" | .OrderNotAllowed => "OrderNotAllowed"
  | .InvalidStrategy => "InvalidStrategy" | .EmptyPosition => "EmptyPosition"
  | .OpenPositionError => "OpenPositionError" | .InvalidTimeframe => "InvalidTimeframe"
  | .NotImplemented => "NotImplemented" | .Other => "Other"

inductive Side where | buy | sell
deriving DecidableEq, Repr, Inhabited

inductive PosType where | long | short | close
deriving DecidableEq, Repr, Inhabited

inductive OrderType where | market | limit | stop
deriving DecidableEq, Repr, Inhabited

inductive OrderStatus where | active | executed | canceled
deriving DecidableEq, Repr, Inhabited

/-- The seventeen timeframes of `jesse.enums.timeframes`, in the order of the class body. -/
inductive Timeframe where
  | m1 | m3 | m5 | m15 | m30 | m45 | h1 | h2 | h3 | h4 | h6 | h8 | h12 | d1 | d3 | w1 | mo1
deriving DecidableEq, Repr, Inhabited

def Timeframe.all : List Timeframe :=
  [.m1, .m3, .m5, .m15, .m30, .m45, .h1, .h2, .h3, .h4, .h6, .h8, .h12, .d1, .d3, .w1, .mo1]

def Timeframe.str : Timeframe → String
  | .m1 => "1m" | .m3 => "3m" | .m5 => "5m" | .m15 => "15m" | .m30 => "30m" | .m45 => "45m"
  | .h1 => "1h" | .h2 => "2h" | .h3 => "3h" | .h4 => "4h" | .h6 => "6h" | .h8 => "8h"
  | .h12 => "12h" | .d1 => "1D" | .d3 => "3D" | .w1 => "1W" | .mo1 => "1M"

def Timeframe.ofStr? (s : String) : Option Timeframe :=
  Timeframe.all.find? (fun t => t.str == s)

/-- `10 ** p` for an integer `p` (Python gives a float for negative `p`). -/
def pow10 (p : Int) : Rat :=
  if 0 ≤ p then (10 : Rat) ^ p.toNat else 1 / (10 : Rat) ^ (-p).toNat

/-- `math.floor` as a rational. -/
def floorR (x : Rat) : Rat := ((Rat.floor x : Int) : Rat)

/-- CPython's `round(x)` (banker's rounding, half to even) as an integer. -/
def roundHalfEven (x : Rat) : Int :=
  let f := Rat.floor x
  let d := x - (f : Rat)
  if d < 1/2 then f
  else if 1/2 < d then f + 1
  else if f % 2 = 0 then f else f + 1

def absR (x : Rat) : Rat := if x < 0 then -x else x
def minR (a b : Rat) : Rat := if b < a then b else a   -- Python `min(a,b)`: returns a unless b < a
def maxR (a b : Rat) : Rat := if a < b then b else a   -- Python `max(a,b)`: returns a unless b > a

/-- if-chain walker used by the proofs over generated code (DESIGN 2.4). -/
theorem ite_elim {α : Sort _} (P : α → Prop) (c : Prop) [Decidable c] (a b : α)
    (h1 : c → P a) (h2 : ¬c → P b) : P (if c then a else b) := by
  by_cases h : c
  · simp only [h, ite_true]; exact h1 h
  · simp only [h, ite_false]; exact h2 h

end Jesse
