/-
  Jesse/Session.lean — hand model of the process-wide state that survives a `research.backtest` call
  (jesse/research/backtest.py `_isolated_backtest`, jesse/config.py `set_config`/`reset_config`,
  jesse/helpers.py `get_config` + `CACHED_CONFIG`, jesse/services/api.py `api.drivers`,
  jesse/services/broker.py).  The engine itself is a black box here: the model tracks which EFFECTIVE
  parameters a session ends up running with.  Tied to the real code by the correspondence check
  (harness/props/c11.py: random call histories, effective parameters observed inside the sessions).
-/
import Jesse.Accounts

namespace Jesse.Sess
open Jesse.Acc

/-- the per-exchange settings a session needs -/
structure ExCfg where
  kind : Kind
  leverage : Nat
  isolated : Bool
  fee : Rat
  balance : Rat
deriving DecidableEq, Repr, Inhabited

/-- the arguments of one `research.backtest` call, as far as the session set-up is concerned -/
structure Args where
  exchange : Nat            -- exchange name (index)
  cfg : ExCfg
  warmup : Nat
  aborts : Bool             -- the session raises part-way through (strategy hook / order rejection)
deriving DecidableEq, Repr, Inhabited

/-- process-wide state -/
structure G where
  conf : List (Nat × ExCfg)                   -- config['env']['exchanges'] (shared with backup_config: persists)
  confWarmup : Nat                            -- config['env']['data']['warmup_candles_num']
  memoEx : List (Nat × (Kind × Nat × Bool))   -- CACHED_CONFIG entries env.exchanges.<name>.{type,futures_leverage,futures_leverage_mode}
  memoWarmup : Option Nat                     -- CACHED_CONFIG['env.data.warmup_candles_num']
  drivers : List Nat                          -- api.drivers keys
deriving Repr

def g0 (firstExchanges : List Nat) : G :=
  { conf := [], confWarmup := 240, memoEx := [], memoWarmup := none, drivers := firstExchanges }

/-- what the session actually runs with -/
structure Eff where
  kind : Kind
  leverage : Nat
  isolated : Bool
  fee : Rat
  balance : Rat
  warmup : Nat
  driver : Bool             -- orders reach an exchange driver
deriving DecidableEq, Repr

def setConf (c : List (Nat × ExCfg)) (k : Nat) (v : ExCfg) : List (Nat × ExCfg) :=
  (k, v) :: c.filter (fun p => p.1 ≠ k)

/-- one call of `_isolated_backtest` -/
def call (g : G) (a : Args) : G × Eff :=
  -- set_config: the memo is cleared, the exchange entry and the warm-up size are written
  let g1 : G := { g with memoEx := [], memoWarmup := none, conf := setConf g.conf a.exchange a.cfg, confWarmup := a.warmup }
  -- the session reads type / leverage / mode through the memo (first read fills it), fee and balance directly
  let fromConf := (g1.conf.lookup a.exchange).getD default
  let mEx := match g1.memoEx.lookup a.exchange with
    | some m => m
    | none => (fromConf.kind, fromConf.leverage, fromConf.isolated)
  let warm := match g1.memoWarmup with | some w => w | none => g1.confWarmup
  let g2 : G := { g1 with memoEx := (a.exchange, mEx) :: g1.memoEx.filter (fun p => p.1 ≠ a.exchange), memoWarmup := some warm }
  -- Broker.__init__: a missing sandbox driver is created
  let g3 : G := if a.exchange ∈ g2.drivers then g2 else { g2 with drivers := a.exchange :: g2.drivers }
  let eff : Eff := { kind := mEx.1, leverage := mEx.2.1, isolated := mEx.2.2, fee := fromConf.fee, balance := fromConf.balance,
                     warmup := warm, driver := decide (a.exchange ∈ g3.drivers) }
  -- reset_config / store.reset only when the session did not raise
  let g4 : G := if a.aborts then g3 else { g3 with memoEx := [], memoWarmup := none }
  (g4, eff)

def runAll (g : G) : List Args → G
  | [] => g
  | a :: rest => runAll (call g a).1 rest

end Jesse.Sess
