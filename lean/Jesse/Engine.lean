/-
  Jesse/Engine.lean — hand model of the backtest engine (DESIGN Appendix D): strategy layer
  (jesse/strategies/Strategy.py), broker/api/Sandbox order creation, the per-minute and the chunked
  matching loops, liquidation check, both simulators (jesse/modes/backtest_mode.py), on top of the
  accounts model (Jesse/Accounts.lean) and the candle-store model (Jesse/Store.lean).
  The routing decisions are the GENERATED functions (Jesse/Gen/Routing.lean), candle splitting and
  aggregation the GENERATED `split_candle` / `generate_candle_from_one_minutes` / `_get_fixed_jumped_candle`.
  A user strategy is a record of ARBITRARY functions of the engine state: theorems "for every strategy"
  quantify over it.  One exchange; symbols and routes are indexed by `Nat`; route `r` trades symbol
  `(routes[r]).sym`.  Errors are sticky (`err`): once an exception has been raised the session is over.
  Tied to the real engine by the correspondence check (scripted strategies, harness/engine.py).
-/
import Jesse.Accounts
import Jesse.Store
import Jesse.Routing
import Jesse.Gen.Sim
import Jesse.Gen.Position

namespace Jesse.Eng
open Jesse Jesse.Acc

inductive Via where | stopLoss | takeProfit
deriving DecidableEq, Repr, Inhabited

abbrev Rows := List (Rat × Rat)        -- a declaration: rows (qty, price)

/-- the four public declaration variables of a strategy -/
structure Decl where
  buy : Option Rows := none
  sell : Option Rows := none
  stopLoss : Option Rows := none
  takeProfit : Option Rows := none
deriving DecidableEq, Repr, Inhabited

structure StratState (M : Type) where
  index : Nat := 0
  decl : Decl := {}                    -- self.buy / sell / stop_loss / take_profit
  shadow : Decl := {}                  -- self._buy / _sell / _stop_loss / _take_profit
  increased : Nat := 0
  reduced : Nat := 0
  tradesCount : Nat := 0
  cachedPrice : Option Rat := none
  mem : M

inductive Event where
  | hook (route : Nat) (name : String) (index : Nat) (price : Rat) (posQty : Rat) (posPnl : Rat)
  | submit (id : Nat) (sym : Nat) (side : Side) (type : OrderType) (qty price : Rat) (ro : Bool)
  | reject (kind : Err)
  | fill (id : Nat) (time : Int) (price qty : Rat)
  | cancel (id : Nat) (time : Int)
  | pos (sym : Nat) (qty : Rat) (entry : Option Rat)
  | daily (time : Int) (value : Rat)
  | liquidation (sym : Nat)
deriving Repr

structure RouteCfg where
  sym : Nat
  tf : Nat               -- minutes
deriving DecidableEq, Repr, Inhabited

structure Cfg where
  routes : List RouteCfg            -- trading routes, in router order
  dataRoutes : List RouteCfg        -- extra data routes
  nsym : Nat
  isolated : Bool                   -- futures_leverage_mode == 'isolated'
deriving Repr

structure SymStore where
  short : List Candle := []
  long : List (Nat × List Candle) := []      -- timeframe minutes ↦ stored candles
deriving Repr, Inhabited

structure Engine (M : Type) where
  cfg : Cfg
  w : World
  via : List (Option Via)                    -- submitted_via per order id
  storage : List (List Nat)                  -- store.orders.storage per symbol (ids since the last reset)
  toExecute : List Nat                       -- pending MARKET orders
  stores : List SymStore
  time : Int
  strat : List (StratState M)
  daily : List Rat
  liquidations : Nat
  err : Option Err := none
  log : List Event := []

/-- what a user strategy may do: arbitrary functions of the engine state (what it can observe) and of
    its own memory; `r` is the route index -/
structure UserStrategy (M : Type) where
  before : Engine M → Nat → M → M
  after : Engine M → Nat → M → M
  shouldLong : Engine M → Nat → M → Bool
  shouldShort : Engine M → Nat → M → Bool
  shouldCancelEntry : Engine M → Nat → M → Bool
  goLong : Engine M → Nat → M → Decl → M × Decl
  goShort : Engine M → Nat → M → Decl → M × Decl
  updatePosition : Engine M → Nat → M → Decl → M × Decl
  onOpen : Engine M → Nat → Nat → M → Decl → M × Decl          -- route, order id
  onIncreased : Engine M → Nat → Nat → M → Decl → M × Decl
  onReduced : Engine M → Nat → Nat → M → Decl → M × Decl
  onClose : Engine M → Nat → Nat → M → Decl → M × Decl
  beforeTerminate : Engine M → Nat → M → Decl → M × Decl

variable {M : Type}

def logE (e : Engine M) (ev : Event) : Engine M := { e with log := e.log ++ [ev] }
def fail (e : Engine M) (k : Err) : Engine M :=
  if e.err.isSome then e else { e with err := some k, log := e.log ++ [Event.reject k] }

instance : Inhabited (StratState Unit) := ⟨{ mem := () }⟩

def routeOf (e : Engine M) (r : Nat) : RouteCfg := e.cfg.routes.getD r default
def stratOf [Inhabited M] (e : Engine M) (r : Nat) : StratState M := e.strat.getD r { mem := default }
def setStrat (e : Engine M) (r : Nat) (f : StratState M → StratState M) : Engine M :=
  { e with strat := upd e.strat r f }
def posOf (e : Engine M) (sym : Nat) : Pos := Acc.getD e.w.pos sym
def storeOf (e : Engine M) (sym : Nat) : SymStore := e.stores.getD sym default

/-- route index trading a symbol (each symbol is traded by at most one route) -/
def routeOfSym (e : Engine M) (sym : Nat) : Option Nat :=
  (List.range e.cfg.routes.length).find? (fun r => (routeOf e r).sym = sym)

/-! ### candle store access -/

def longOf (s : SymStore) (tf : Nat) : List Candle := (s.long.lookup tf).getD []
def setLong (s : SymStore) (tf : Nat) (cs : List Candle) : SymStore :=
  { s with long := (tf, cs) :: s.long.filter (fun p => p.1 ≠ tf) }

def addCandle (e : Engine M) (sym tf : Nat) (c : Candle) : Engine M :=
  { e with stores := upd e.stores sym (fun s =>
      if tf = 1 then { s with short := Store.addCandle s.short c }
      else setLong s tf (Store.addCandle (longOf s tf) c)) }

/-- `store.candles.get_current_candle(exchange, symbol, tf)`'s close = `strategy.close` -/
def currentClose (e : Engine M) (sym tf : Nat) : Option Rat :=
  let s := storeOf e sym
  if tf = 1 then s.short.getLast?.map (·.c)
  else match Store.getCurrentCandle s.short (longOf s tf) tf with
    | .ok (some c) => some c.c
    | _ => none

/-- `strategy.price`: the cached price while executing, else the current close -/
def priceOf [Inhabited M] (e : Engine M) (r : Nat) : Rat :=
  match (stratOf e r).cachedPrice with
  | some p => p
  | none => (currentClose e (routeOf e r).sym (routeOf e r).tf).getD 0

/-! ### orders: Sandbox driver + registries -/

def orderOf (e : Engine M) (id : Nat) : Order := e.w.orders.getD id default

/-- `Sandbox.market_order/limit_order/stop_order` → `Order.__init__` (+ `store.orders.add_order`);
    a MARKET order is queued in `to_execute` -/
def createOrder (e : Engine M) (sym : Nat) (a : Jesse.Gen.ApiCall) (via : Option Via) : Engine M :=
  if e.err.isSome then e else
  match Acc.submit e.w sym a.side a.type a.qty a.price (decide a.reduceOnly) with
  | .error (k, w') => fail { e with w := w' } k
  | .ok w' =>
    let id := e.w.orders.length
    let o := Acc.getD w'.orders id
    let e1 := { e with w := w', via := e.via ++ [via], storage := upd e.storage sym (· ++ [id]),
                       toExecute := if a.type = .market then e.toExecute ++ [id] else e.toExecute }
    logE e1 (Event.submit id sym o.side o.type o.qty o.price o.reduceOnly)

/-- the result of a broker call: an exchange order, or the exception the broker raises -/
def brokerSubmit (e : Engine M) (sym : Nat) (r : Except Err Jesse.Gen.ApiCall) (via : Option Via) : Engine M :=
  if e.err.isSome then e else
  match r with
  | .error k => fail e k
  | .ok a => createOrder e sym a via

/-- `store.orders.get_entry_orders`: all stored orders while the position is closed, otherwise the
    active-registry orders on the position's side that are not cancelled -/
def entryOrders (e : Engine M) (sym : Nat) : List Nat :=
  let p := posOf e sym
  if p.qty = 0 then e.storage.getD sym []
  else
    let side := if p.qty > 0 then Side.buy else Side.sell
    (Acc.getD e.w.active sym).filter (fun id => (orderOf e id).side = side ∧ (orderOf e id).status ≠ .canceled)

/-- `store.orders.get_active_exit_orders` -/
def activeExitOrders (e : Engine M) (sym : Nat) : List Nat :=
  let p := posOf e sym
  if p.qty = 0 then []
  else
    let side := if p.qty > 0 then Side.buy else Side.sell
    (Acc.getD e.w.active sym).filter (fun id => (orderOf e id).side ≠ side ∧ (orderOf e id).status ≠ .canceled)

/-! ### the strategy layer -/

def fmt (rows : Option Rows) : Rows := rows.getD []

/-- `_get_formatted_order` validation: every price must be > 0 -/
def validRows (rows : Rows) : Bool := rows.all (fun r => r.2 > 0)

section strategy
variable [Inhabited M] (u : UserStrategy M)

/-- `_submit_buy_orders` / `_submit_sell_orders` -/
def submitEntries (e : Engine M) (r : Nat) (buy : Bool) (rows : Rows) : Engine M :=
  let sym := (routeOf e r).sym
  rows.foldl (fun e row =>
    if e.err.isSome then e else
    let price := priceOf e r
    let cur := (posOf e sym).current.getD 0
    brokerSubmit e sym (if buy then Jesse.Routing.entryBuy row.1 row.2 price cur
                        else Jesse.Routing.entrySell row.1 row.2 price cur) none) e

def posTypeOf (e : Engine M) (sym : Nat) : PosType := (posOf e sym).type

/-- `broker.cancel_order(o.id)` -/
def cancelOrder (e : Engine M) (id : Nat) : Engine M :=
  if (orderOf e id).status = .active then
    logE { e with w := Acc.cancel e.w id } (Event.cancel id e.time)
  else e

/-- one exit kind of `_detect_and_handle_entry_and_exit_modifications` -/
def resubmitExits (e : Engine M) (r : Nat) (isStop : Bool) (rows : Rows) : Engine M :=
  let sym := (routeOf e r).sym
  let via := if isStop then Via.stopLoss else Via.takeProfit
  -- CANCEL previous orders of this kind
  let e1 := (activeExitOrders e sym).foldl (fun e id =>
      if (e.via.getD id none) = some via ∧ (orderOf e id).status = .active then cancelOrder e id else e) e
  let temp : Option Rat := if rows.length = 1 then some (priceOf e r) else none
  rows.foldl (fun e row =>
    if e.err.isSome then e else
    if (posOf e sym).qty = 0 then e else
    let price := priceOf e r
    let orderPrice := if temp = some row.2 then price else row.2
    brokerSubmit e sym (Jesse.Gen.reducePositionAt row.1 orderPrice price (posTypeOf e sym)) (some via)) e1

/-- the entry part of `_detect_and_handle_entry_and_exit_modifications` (position open) -/
def dmEntries (e : Engine M) (r : Nat) : Engine M :=
  let sym := (routeOf e r).sym
  let st := stratOf e r
  if (posOf e sym).qty > 0 then
    (if ¬ validRows (fmt st.decl.buy) then fail e .InvalidStrategy
     else if st.shadow.buy.isNone ∨ fmt st.decl.buy ≠ fmt st.shadow.buy then
      let e' := setStrat e r (fun s => { s with shadow := { s.shadow with buy := some (fmt s.decl.buy) },
                                                decl := { s.decl with buy := some (fmt s.decl.buy) } })
      let e'' := (entryOrders e' sym).foldl (fun e id => cancelOrder e id) e'
      submitEntries e'' r true (fmt st.decl.buy)
     else setStrat e r (fun s => { s with decl := { s.decl with buy := some (fmt s.decl.buy) } }))
  else
    (if ¬ validRows (fmt st.decl.sell) then fail e .InvalidStrategy
     else if st.shadow.sell.isNone ∨ fmt st.decl.sell ≠ fmt st.shadow.sell then
      let e' := setStrat e r (fun s => { s with shadow := { s.shadow with sell := some (fmt s.decl.sell) },
                                                decl := { s.decl with sell := some (fmt s.decl.sell) } })
      let e'' := (entryOrders e' sym).foldl (fun e id => cancelOrder e id) e'
      submitEntries e'' r false (fmt st.decl.sell)
     else setStrat e r (fun s => { s with decl := { s.decl with sell := some (fmt s.decl.sell) } }))

/-- the stop-loss part -/
def dmStop (e1 : Engine M) (r : Nat) : Engine M :=
  let sym := (routeOf e1 r).sym
  let st1 := stratOf e1 r
  if (posOf e1 sym).qty ≠ 0 ∧ st1.decl.stopLoss.isSome then
    (if ¬ validRows (fmt st1.decl.stopLoss) then fail e1 .InvalidStrategy
     else if fmt st1.decl.stopLoss ≠ fmt st1.shadow.stopLoss ∨ st1.shadow.stopLoss.isNone then
      let e' := setStrat e1 r (fun s => { s with shadow := { s.shadow with stopLoss := s.decl.stopLoss } })
      resubmitExits e' r true (fmt st1.decl.stopLoss)
     else e1)
  else e1

/-- the take-profit part -/
def dmTake (e2 : Engine M) (r : Nat) : Engine M :=
  let sym := (routeOf e2 r).sym
  let st2 := stratOf e2 r
  if (posOf e2 sym).qty ≠ 0 ∧ st2.decl.takeProfit.isSome then
    (if ¬ validRows (fmt st2.decl.takeProfit) then fail e2 .InvalidStrategy
     else if fmt st2.decl.takeProfit ≠ fmt st2.shadow.takeProfit ∨ st2.shadow.takeProfit.isNone then
      let e' := setStrat e2 r (fun s => { s with shadow := { s.shadow with takeProfit := s.decl.takeProfit } })
      resubmitExits e' r false (fmt st2.decl.takeProfit)
     else e2)
  else e2

/-- `_detect_and_handle_entry_and_exit_modifications` -/
def detectModifications (e : Engine M) (r : Nat) : Engine M :=
  if e.err.isSome then e else
  let sym := (routeOf e r).sym
  if (posOf e sym).qty = 0 then e else
  let e1 := dmEntries e r
  if e1.err.isSome then e1 else
  let e2 := dmStop e1 r
  if e2.err.isSome then e2 else
  let e3 := dmTake e2 r
  if e3.err.isSome then e3 else
  let st3 := stratOf e3 r
  if (posOf e3 sym).qty ≠ 0 ∧ st3.decl.stopLoss.isSome ∧ st3.decl.takeProfit.isSome ∧
      fmt st3.decl.stopLoss = fmt st3.decl.takeProfit ∧ (fmt st3.decl.stopLoss).length > 0 then
    fail e3 .InvalidStrategy
  else e3

/-- `_broadcast`: the other routes re-check their declarations -/
def broadcast (e : Engine M) (r : Nat) : Engine M :=
  (List.range e.cfg.routes.length).foldl (fun e r' => if r' = r then e else detectModifications e r') e

/-- apply a user hook that may rewrite the declarations -/
def runHook (e : Engine M) (r : Nat) (name : String) (h : M → Decl → M × Decl) : Engine M :=
  if e.err.isSome then e else
  let st := stratOf e r
  let res := h st.mem st.decl
  let e1 := setStrat e r (fun s => { s with mem := res.1, decl := res.2 })
  logE e1 (Event.hook r name st.index (priceOf e r) (posOf e (routeOf e r).sym).qty (posOf e (routeOf e r).sym).pnl)

/-- `_reset` -/
def resetStrategy (e : Engine M) (r : Nat) : Engine M :=
  let sym := (routeOf e r).sym
  let e1 := setStrat e r (fun s => { s with decl := {}, shadow := {}, increased := 0, reduced := 0 })
  { e1 with storage := upd e1.storage sym (fun _ => []),
            w := { e1.w with active := upd e1.w.active sym (fun _ => []) } }

/-- `_execute_cancel` -/
def executeCancel (e : Engine M) (r : Nat) : Engine M :=
  if e.err.isSome then e else
  let sym := (routeOf e r).sym
  if (posOf e sym).qty ≠ 0 then fail e .Other else
  -- Sandbox.cancel_all_orders: cancel the active ones, clear the storage
  let e1 := (Acc.getD e.w.active sym).foldl (fun e id => cancelOrder e id) e
  let e2 := { e1 with storage := upd e1.storage sym (fun _ => []) }
  let e3 := resetStrategy e2 r
  -- _broadcast('route-canceled'): other strategies re-check their declarations
  let e4 := broadcast e3 r
  logE e4 (Event.hook r "on_cancel" (stratOf e r).index (priceOf e r) 0 (posOf e (routeOf e r).sym).pnl)

/-- the exit orders `_on_open_position` submits for the rows declared in go_long / go_short -/
def openExitRows (e : Engine M) (r : Nat) (rows : Rows) (isStop : Bool) : Engine M :=
  let sym := (routeOf e r).sym
  rows.foldl (fun e row =>
    if e.err.isSome then e else
    let p := posOf e sym
    let entry := p.entry.getD 0
    let cur := p.current.getD 0
    let wrongSide := if isStop then (if p.qty > 0 then row.2 ≥ entry else row.2 ≤ entry)
                     else (if p.qty > 0 then row.2 ≤ entry else row.2 ≥ entry)
    let via := if isStop then Via.stopLoss else Via.takeProfit
    if p.qty ≠ 0 ∧ wrongSide then
      brokerSubmit e sym (if p.qty > 0 then Jesse.Gen.sellAtMarket row.1 cur else Jesse.Gen.buyAtMarket row.1 cur) (some via)
    else
      brokerSubmit e sym (Jesse.Gen.reducePositionAt row.1 row.2 (priceOf e r) (posTypeOf e sym)) (some via)) e

/-- `_on_open_position` -/
def onOpenPosition (e : Engine M) (r : Nat) (oid : Nat) : Engine M :=
  if e.err.isSome then e else
  let e0 := setStrat e r (fun s => { s with increased := 1 })
  let e0 := broadcast e0 r
  let st := stratOf e0 r
  let e1 := if st.decl.stopLoss.isSome then openExitRows e0 r (fmt st.shadow.stopLoss) true else e0
  let e2 := if st.decl.takeProfit.isSome then openExitRows e1 r (fmt st.shadow.takeProfit) false else e1
  let e3 := runHook e2 r "on_open_position" (u.onOpen e2 r oid)
  detectModifications e3 r

/-- `_on_close_position` -/
def onClosePosition (e : Engine M) (r : Nat) (oid : Nat) : Engine M :=
  if e.err.isSome then e else
  let e0 := broadcast e r
  let e1 := executeCancel e0 r
  let e2 := runHook e1 r "on_close_position" (u.onClose e1 r oid)
  detectModifications e2 r

def onIncreasedPosition (e : Engine M) (r : Nat) (oid : Nat) : Engine M :=
  if e.err.isSome then e else
  let e0 := setStrat e r (fun s => { s with increased := s.increased + 1 })
  let e0 := broadcast e0 r
  let e1 := runHook e0 r "on_increased_position" (u.onIncreased e0 r oid)
  detectModifications e1 r

def onReducedPosition (e : Engine M) (r : Nat) (oid : Nat) : Engine M :=
  if e.err.isSome then e else
  let e0 := setStrat e r (fun s => { s with reduced := s.reduced + 1 })
  let e0 := broadcast e0 r
  let e1 := runHook e0 r "on_reduced_position" (u.onReduced e0 r oid)
  detectModifications e1 r

/-- `Strategy._on_updated_position`: the effect is read off |previous_qty| vs |qty| -/
def onUpdatedPosition (e : Engine M) (r : Nat) (oid : Nat) : Engine M :=
  if e.err.isSome then e else
  let p := posOf e (routeOf e r).sym
  let before := absR p.prevQty
  let after := absR p.qty
  if before ≤ 0 ∧ 0 < after then onOpenPosition u e r oid
  else if before > 0 ∧ 0 ≥ after then onClosePosition u e r oid
  else if after > before then onIncreasedPosition u e r oid
  else onReducedPosition u e r oid

/-- what follows the account update of an executed order: the trade counter and the position hooks of the
    route that trades the symbol (`tradesBefore` = closed trades before the fill) -/
def afterFill (e1 : Engine M) (sym tradesBefore id : Nat) : Engine M :=
  match routeOfSym e1 sym with
  | none => e1
  | some r =>
    let e3 := if e1.w.trades.length > tradesBefore then
        setStrat e1 r (fun s => { s with tradesCount := s.tradesCount + (e1.w.trades.length - tradesBefore) }) else e1
    onUpdatedPosition u e3 r id

/-- `Order.execute` including the strategy callback -/
def executeOrder (e : Engine M) (id : Nat) : Engine M :=
  if e.err.isSome then e else
  let o := orderOf e id
  if o.status ≠ .active then e else
  let tradesBefore := e.w.trades.length
  let e1 := logE { e with w := Acc.execute e.w id } (Event.fill id e.time o.price o.qty)
  let e4 := afterFill u e1 o.sym tradesBefore id
  if e4.err.isSome then e4 else
  let p := posOf e4 o.sym
  logE e4 (Event.pos o.sym p.qty p.entry)

/-- `store.orders.execute_pending_market_orders`: a Python `for` over a list that hooks may extend
    while it runs; the list is emptied afterwards.  `fuel` bounds the iteration. -/
def executePendingMarketOrders (fuel : Nat) (e : Engine M) : Engine M :=
  let rec go (fuel : Nat) (e : Engine M) (i : Nat) : Engine M :=
    match fuel with
    | 0 => fail e .Other
    | f + 1 =>
      if e.err.isSome then e else
      match e.toExecute[i]? with
      | none => { e with toExecute := [] }
      | some id => go f (executeOrder u e id) (i + 1)
  if e.toExecute.isEmpty then e else go fuel e 0

/-- exits declared inside go_long / go_short: validated and copied to the shadow (spot longs may not declare them) -/
def entryExits (e2 : Engine M) (r : Nat) (long spot : Bool) (declared : Option Rows) (isStop : Bool) : Engine M :=
  if declared.isSome then
    (if long ∧ spot then fail e2 .InvalidStrategy
     else if ¬ validRows (fmt declared) then fail e2 .InvalidStrategy
     else setStrat e2 r (fun s =>
       if isStop then { s with shadow := { s.shadow with stopLoss := s.decl.stopLoss } }
       else { s with shadow := { s.shadow with takeProfit := s.decl.takeProfit } }))
  else e2

/-- `_execute_long` / `_execute_short` -/
def executeEntry (e : Engine M) (r : Nat) (long : Bool) (spot : Bool) : Engine M :=
  if e.err.isSome then e else
  let e1 := runHook e r (if long then "go_long" else "go_short") (if long then u.goLong e r else u.goShort e r)
  let st := stratOf e1 r
  let rows := if long then st.decl.buy else st.decl.sell
  if rows.isNone then fail e1 .InvalidStrategy else
  if ¬ validRows (fmt rows) then fail e1 .InvalidStrategy else
  let e2 := setStrat e1 r (fun s =>
    if long then { s with decl := { s.decl with buy := some (fmt rows) }, shadow := { s.shadow with buy := some (fmt rows) } }
    else { s with decl := { s.decl with sell := some (fmt rows) }, shadow := { s.shadow with sell := some (fmt rows) } })
  -- take-profit / stop-loss declared in go_long/go_short
  let e3 := entryExits e2 r long spot st.decl.takeProfit false
  if e3.err.isSome then e3 else
  let e4 := entryExits e3 r long spot st.decl.stopLoss true
  if e4.err.isSome then e4 else
  submitEntries e4 r long (fmt rows)

/-- `_check`, first part: should the resting entries be cancelled? -/
def checkCancel (e : Engine M) (r : Nat) : Engine M :=
  let sym := (routeOf e r).sym
  if (entryOrders e sym).length > 0 ∧ (posOf e sym).qty = 0 then
    let e' := logE e (Event.hook r "should_cancel_entry" (stratOf e r).index (priceOf e r) 0 (posOf e sym).pnl)
    if u.shouldCancelEntry e r (stratOf e r).mem then executeCancel e' r else e'
  else e

/-- `_check`, second part: update_position with an open position -/
def checkUpdate (e1 : Engine M) (r : Nat) : Engine M :=
  if (posOf e1 (routeOf e1 r).sym).qty ≠ 0 then
    detectModifications (runHook e1 r "update_position" (u.updatePosition e1 r)) r
  else e1

/-- `_check`, last part: with no position and no entry orders, ask for a new entry -/
def checkEntry (e3 : Engine M) (r : Nat) (spot : Bool) : Engine M :=
  let sym := (routeOf e3 r).sym
  let e4 := resetStrategy e3 r
  let st := stratOf e4 r
  let sShort := u.shouldShort e4 r st.mem
  let e5 := logE e4 (Event.hook r "should_short" st.index (priceOf e4 r) 0 (posOf e4 sym).pnl)
  if spot ∧ sShort then fail e5 .InvalidStrategy else
  let sLong := u.shouldLong e5 r st.mem
  let e6 := logE e5 (Event.hook r "should_long" st.index (priceOf e5 r) 0 (posOf e5 sym).pnl)
  if sShort ∧ sLong then fail e6 .Other
  else if sLong then executeEntry u e6 r true spot
  else if sShort then executeEntry u e6 r false spot
  else e6

/-- `_check` -/
def check (fuel : Nat) (e : Engine M) (r : Nat) : Engine M :=
  if e.err.isSome then e else
  let sym := (routeOf e r).sym
  let spot : Bool := decide (e.w.kind = .spot)
  let e3 := executePendingMarketOrders u fuel (checkUpdate u (checkCancel u e r) r)
  if e3.err.isSome then e3 else
  if (posOf e3 sym).qty = 0 ∧ (entryOrders e3 sym) = [] then checkEntry u e3 r spot
  else e3

/-- `_execute`, before `_check`: cache the price, call `before()` -/
def beforeStep (e : Engine M) (r : Nat) : Engine M :=
  let rc := routeOf e r
  let price := (currentClose e rc.sym rc.tf).getD 0
  let e0 := setStrat e r (fun s => { s with cachedPrice := some price })
  let st := stratOf e0 r
  logE (setStrat e0 r (fun s => { s with mem := u.before e0 r st.mem }))
    (Event.hook r "before" st.index price (posOf e0 rc.sym).qty (posOf e0 rc.sym).pnl)

/-- `_execute`, after `_check`: call `after()`, drop the cached price, advance the index -/
def afterStep (e2 : Engine M) (r : Nat) : Engine M :=
  let rc := routeOf e2 r
  let st2 := stratOf e2 r
  let e3 := logE (setStrat e2 r (fun s => { s with mem := u.after e2 r st2.mem }))
    (Event.hook r "after" st2.index (priceOf e2 r) (posOf e2 rc.sym).qty (posOf e2 rc.sym).pnl)
  setStrat e3 r (fun s => { s with cachedPrice := none, index := s.index + 1 })

/-- `_execute` -/
def executeStrategy (fuel : Nat) (e : Engine M) (r : Nat) : Engine M :=
  if e.err.isSome then e else
  let e2 := check u fuel (beforeStep u e r) r
  if e2.err.isSome then e2 else afterStep u e2 r

/-! ### matching -/

/-- `_get_executing_orders`: active orders of the symbol whose price lies in the candle -/
def executingOrders (e : Engine M) (sym : Nat) (c : Candle) : List Nat :=
  (Acc.getD e.w.active sym).filter (fun id =>
    (orderOf e id).status = .active ∧ decide (Jesse.Gen.candleIncludesPrice c (orderOf e id).price))

/-- stable insertion sort by a key (Python's `sorted`) -/
def insertBy (key : Nat → Rat) (desc : Bool) (x : Nat) : List Nat → List Nat
  | [] => [x]
  | y :: ys => if (if desc then key y < key x else key x < key y) then x :: y :: ys else y :: insertBy key desc x ys

def sortedBy (key : Nat → Rat) (desc : Bool) (xs : List Nat) : List Nat :=
  xs.foldl (fun acc x => insertBy key desc x acc) []

/-- `_sort_execution_orders(orders, short_candles)` -/
def sortExecutionOrders (e : Engine M) (orders : List Nat) (candles : List Candle) : List Nat :=
  let price := fun id => (orderOf e id).price
  let rec go (cs : List Candle) (acc : List Nat) : List Nat :=
    match cs with
    | [] => acc
    | c :: rest =>
      let inc := orders.filter (fun id => decide (Jesse.Gen.candleIncludesPrice c (price id)))
      let acc' :=
        if inc.length = 1 then acc ++ inc
        else if inc.length > 1 then
          let isRed := c.o > c.c
          let onOpen := inc.filter (fun id => price id = c.o)
          let above := inc.filter (fun id => price id > c.o)
          let below := inc.filter (fun id => ¬ (price id > c.o))
          if isRed then acc ++ onOpen ++ sortedBy price false above ++ sortedBy price true below
          else acc ++ onOpen ++ sortedBy price true below ++ sortedBy price false above
        else acc
      if acc'.length = orders.length then acc' else go rest acc'
  go candles []

/-- `_update_all_routes_a_partial_candle` -/
def updatePartialCandle (e : Engine M) (sym : Nat) (c : Candle) : Engine M :=
  let e1 := addCandle e sym 1 c
  let tfs := ((e.cfg.routes ++ e.cfg.dataRoutes).filter (fun r => r.sym = sym ∧ r.tf ≠ 1)).map (·.tf)
  tfs.foldl (fun (e : Engine M) (tf : Nat) =>
    let needed := ((c.ts % ((tf : Int) * 60000)) / 60000).toNat + 1
    let ones := (storeOf e sym).short
    let win := ones.drop (ones.length - needed)
    match Store.generate tf win with
    | .ok g => addCandle e sym tf g
    | .error k => fail e k) e1

def setCurrentPrice (e : Engine M) (sym : Nat) (p : Rat) : Engine M :=
  { e with w := Acc.setPrice e.w sym p }

/-- `_check_for_liquidations` -/
def checkLiquidation (e : Engine M) (sym : Nat) (c : Candle) : Engine M :=
  if e.err.isSome then e else
  if ¬ e.cfg.isolated ∨ e.w.kind = .spot then e else
  let p := posOf e sym
  if p.qty = 0 then e else
  let pv : Jesse.Gen.PosView := { qty := p.qty, entry := p.entry.getD 0, current := p.current.getD 0,
                                  leverage := e.w.leverage, mode := .isolated, hasStrategy := True }
  match Jesse.Gen.liquidationPrice pv, Jesse.Gen.bankruptcyPrice pv with
  | .ok (some liq), some bk =>
    if decide (Jesse.Gen.candleIncludesPrice c liq) then
      let side := if p.qty > 0 then Side.sell else Side.buy
      match Acc.submit e.w sym side .market p.qty bk true with
      | .error (k, w') => fail { e with w := w' } k
      | .ok w' =>
        let id := e.w.orders.length
        let o := Acc.getD w'.orders id
        let e1 := logE { e with w := w', via := e.via ++ [none], storage := upd e.storage sym (· ++ [id]),
                                liquidations := e.liquidations + 1 }
          (Event.submit id sym o.side o.type o.qty o.price o.reduceOnly)
        -- the bigger timeframes are published up to the current minute before the position hooks run
        let e2 := logE e1 (Event.liquidation sym)
        match (storeOf e2 sym).short.getLast? with
        | some last => executeOrder u (updatePartialCandle e2 sym last) id
        | none => fail e2 .IndexError
    else e
  | _, _ => e

/-- the `while True` loop of `_simulate_price_change_effect`: try the candidates in order on the
    remaining candle; a fill splits the candle, publishes the partial candle, runs the reactions and
    re-selects.  Returns the state and whether anything was executed in the last pass. -/
def matchLoop (fuel : Nat) (e : Engine M) (sym : Nat) (cur : Candle) (cands : List Nat)
    (reselect : Engine M → Candle → List Nat) (stampTime : Bool) : Engine M × Candle :=
  match fuel with
  | 0 => (fail e .Other, cur)
  | f + 1 =>
    if e.err.isSome then (e, cur) else
    -- first active candidate whose price is inside the remaining candle … the code walks the list and
    -- stops at the first order it can execute; inactive ones are skipped
    let rec firstHit (l : List Nat) : Option Nat :=
      match l with
      | [] => none
      | id :: rest =>
        if (orderOf e id).status ≠ .active then firstHit rest
        else if decide (Jesse.Gen.candleIncludesPrice cur (orderOf e id).price) then some id
        else firstHit rest
    match firstHit cands with
    | none => (e, cur)
    | some id =>
      match Jesse.Gen.splitCandle cur (orderOf e id).price with
      | none => (fail e .TypeError, cur)       -- `a, b = None` raises TypeError
      | some (storable, rest) =>
        let e1 := updatePartialCandle e sym storable
        let e2 := setCurrentPrice e1 sym storable.c
        let e3 := if stampTime then { e2 with time := storable.ts + 60000 } else e2
        let e4 := executeOrder u e3 id
        matchLoop f e4 sym rest (reselect e4 rest) reselect stampTime

/-- `_simulate_price_change_effect(real_candle, exchange, symbol)` -/
def simulateMinute (fuel : Nat) (e : Engine M) (sym : Nat) (real : Candle) : Engine M :=
  if e.err.isSome then e else
  let sel := fun (e : Engine M) (c : Candle) =>
    let os := executingOrders e sym c
    if os.length > 1 then sortExecutionOrders e os [c] else os
  let (e1, _) := matchLoop u fuel e sym real (sel e real) sel false
  if e1.err.isSome then e1 else
  let e2 := addCandle e1 sym 1 real
  let e3 := setCurrentPrice e2 sym real.c
  checkLiquidation u e3 sym real

/-- the minutes of a chunk as the matching loop walks them: each one after the first starts at the previous minute's
    (raw) close — `path_candles` of `_simulate_price_change_effect_multiple_candles` -/
def fixChunk : Option Candle → List Candle → List Candle
  | _, [] => []
  | none, c :: cs => c :: fixChunk (some c) cs
  | some p, c :: cs => Jesse.Gen.fixJump p c :: fixChunk (some c) cs

/-- the re-selection of the fast simulator after a fill: the orders inside the chunk's aggregate candle, sorted
    along what remains of the path (`rest` of this minute, then the remaining minutes, each jump-fixed); orders the sort leaves
    out (reachable only through a gap) keep their place at the end -/
def chunkReselect (sym : Nat) (real : Candle) (c : Candle) (more : List Candle) (e : Engine M) (rest : Candle) : List Nat :=
  let os := executingOrders e sym real
  if os.length > 1 then
    let s := sortExecutionOrders e os (rest :: fixChunk (some c) more)
    s ++ os.filter (fun o => !s.contains o)
  else os

/-- `_simulate_price_change_effect_multiple_candles(short_timeframes_candles, exchange, symbol)` -/
def simulateChunk (fuel : Nat) (e : Engine M) (sym : Nat) (cs : List Candle) : Engine M :=
  if e.err.isSome then e else
  match Store.generate 0 cs with
  | .error k => fail e k
  | .ok real =>
    let os := executingOrders e sym real
    let e1 :=
      if os.length > 0 then
        let sorted := if os.length > 1 then sortExecutionOrders e os (fixChunk none cs) else os
        -- per-minute loop on candles extended to the previous close; re-selection on the aggregate, sorted along
        -- the path that remains (the rest of this minute, then the remaining raw minutes); what the sort leaves
        -- out stays at the end in registry order
        let rec perMinute (rest : List Candle) (prev : Option Candle) (e : Engine M) (cands : List Nat) : Engine M :=
          match rest with
          | [] => e
          | c :: more =>
            if e.err.isSome then e else
            let cur : Candle := match prev with
              | some p => Jesse.Gen.fixJump p c
              | none => c
            let resel := chunkReselect sym real c more
            let (e1, cur') := matchLoop u fuel e sym cur cands resel true
            if e1.err.isSome then e1 else
            let e2 := addCandle e1 sym 1 c
            let e3 := setCurrentPrice e2 sym cur'.c
            -- the candidate list carried to the next minute is the last re-selection (or the sorted one)
            let cands' := if e1.log.length = e.log.length then cands else resel e1 cur'
            perMinute more (some c) e3 cands'
        perMinute cs none e sorted
      else e
    if e1.err.isSome then e1 else
    let short := (storeOf e1 sym).short
    match Store.addMultiple1m short cs with
    | .error k => fail e1 k
    | .ok short' =>
      let e2 := { e1 with stores := upd e1.stores sym (fun s => { s with short := short' }),
                          time := real.ts + 60000 * cs.length }
      let e3 := checkLiquidation u e2 sym real
      match cs.getLast? with
      | some l => setCurrentPrice e3 sym l.c
      | none => e3

/-! ### the simulators -/

/-- `save_daily_portfolio_balance` -/
def saveDaily (e : Engine M) : Engine M :=
  let total :=
    match e.w.kind with
    | .futures => e.w.wallet + ((List.range e.w.pos.length).map (fun i => (Acc.getD e.w.pos i).pnl)).foldl (· + ·) 0
    | .spot =>
      -- portfolio_value of the first position's strategy: balance + the active entry orders' value of EVERY route
      -- + value of all positions
      let entryVal := (e.cfg.routes.map (fun rc =>
        ((entryOrders e rc.sym).filter (fun id => (orderOf e id).status = .active)).foldl
          (fun a id => a + absR (orderOf e id).qty * (orderOf e id).price) 0)).foldl (· + ·) 0
      let posVal := ((List.range e.w.pos.length).map (fun i =>
        let p := Acc.getD e.w.pos i
        if p.qty = 0 then 0 else absR (p.current.getD 0 * p.qty))).foldl (· + ·) 0
      entryVal + posVal + e.w.wallet
  logE { e with daily := e.daily ++ [total] } (Event.daily e.time total)

/-- `_terminate` -/
def terminate (fuel : Nat) (e : Engine M) (r : Nat) : Engine M :=
  if e.err.isSome then e else
  let sym := (routeOf e r).sym
  let e1 := runHook e r "before_terminate" (u.beforeTerminate e r)
  let e2 := detectModifications e1 r
  let e3 := executePendingMarketOrders u fuel e2
  if e3.err.isSome then e3 else
  let p := posOf e3 sym
  if p.qty ≠ 0 then
    let e4 := if e3.w.kind = .spot then
        (Acc.getD e3.w.active sym).foldl (fun e id => cancelOrder e id)
          { e3 with storage := upd e3.storage sym (fun _ => []) } else e3
    brokerSubmit e4 sym (Jesse.Gen.reducePositionAt p.qty (p.current.getD 0) (priceOf e4 r) (posTypeOf e4 sym)) none
  else if (entryOrders e3 sym).length > 0 then executeCancel e3 r
  else e3

/-- fix the jump of row `i` against row `i-1` (mutating the input array, as the code does) -/
def fixedRow (cs : List Candle) (i : Nat) : Option Candle :=
  match cs[i]? with
  | none => none
  | some c => if i = 0 then some c else
    match cs[i - 1]? with
    | some p => some (Jesse.Gen.fixJump p c)
    | none => some c

/-- all timeframes > 1m that are considered for a symbol -/
def tfsOf (cfg : Cfg) (sym : Nat) : List Nat :=
  (((cfg.routes ++ cfg.dataRoutes).filter (fun r => r.sym = sym ∧ r.tf ≠ 1)).map (·.tf)).eraseDups

/-- the per-symbol part of iteration `i` of `_step_simulator`: fix the jump of row `i` (in place), store the
    1m candle, match the orders, generate the larger timeframes whose window ends at `i` -/
def symStep (fuel : Nat) (i : Nat) (acc : Engine M × List (List Candle)) (sym : Nat) : Engine M × List (List Candle) :=
  if acc.1.err.isSome then acc else
  match fixedRow (acc.2.getD sym []) i with
  | none => (fail acc.1 .IndexError, acc.2)
  | some c =>
    let cs' := (acc.2.getD sym []).set i c
    let e1 := addCandle acc.1 sym 1 c
    let e2 := simulateMinute u fuel e1 sym c
    let e3 := (tfsOf acc.1.cfg sym).foldl (fun (e : Engine M) (tf : Nat) =>
      if (i + 1) % tf = 0 then
        match Jesse.Gen.generateCandle tf (Py.slice cs' (some ((i : Int) - ((tf : Int) - 1))) (some ((i : Int) + 1))) False with
        | .ok g => addCandle e sym tf g
        | .error k => fail e k
      else e) e2
    (e3, acc.2.set sym cs')

/-- the part of an iteration that does not touch the input arrays: execute the routes, the pending market
    orders and the daily equity sample -/
def routesStep (fuel : Nat) (e1 : Engine M) (i : Nat) (boundary : Nat) : Engine M :=
  let e2 := (List.range e1.cfg.routes.length).foldl (fun e r =>
    if e.err.isSome then e else
    let rc := routeOf e r
    let e' := if rc.tf = 1 ∨ boundary % rc.tf = 0 then executeStrategy u fuel e r else e
    { e' with w := Acc.updateActive e'.w rc.sym }) e1
  let e3 := executePendingMarketOrders u fuel e2
  if i ≠ 0 ∧ i % 1440 = 0 then saveDaily e3 else e3

/-- one iteration `i` of `_step_simulator`; `inputs` are the (progressively fixed) per-symbol arrays -/
def stepAt (fuel : Nat) (inputs : List (List Candle)) (e : Engine M) (i : Nat) : Engine M × List (List Candle) :=
  if e.err.isSome then (e, inputs) else
  let e0 := { e with time := ((((inputs.getD 0 [])[i]?).map (·.ts)).getD 0) + 60000 }
  let res := (List.range e.cfg.nsym).foldl (symStep u fuel i) (e0, inputs)
  (routesStep u fuel res.1 i (i + 1), res.2)

def finishRun (fuel : Nat) (e : Engine M) : Engine M :=
  let e1 := (List.range e.cfg.routes.length).foldl (fun e r =>
    executePendingMarketOrders u fuel (terminate u fuel e r)) e
  if e1.err.isSome then e1 else saveDaily e1

/-- the first `n` iterations of `_step_simulator` (after the initial equity sample) -/
def runStepN (fuel : Nat) (inputs : List (List Candle)) (e : Engine M) (n : Nat) : Engine M × List (List Candle) :=
  let e0 := saveDaily { e with time := (((inputs.getD 0 [])[0]?).map (·.ts)).getD 0 }
  (List.range n).foldl (fun (acc : Engine M × List (List Candle)) i => stepAt u fuel acc.2 acc.1 i) (e0, inputs)

/-- `_step_simulator` -/
def runStep (fuel : Nat) (inputs : List (List Candle)) (e : Engine M) : Engine M :=
  finishRun u fuel (runStepN u fuel inputs e (inputs.getD 0 []).length).1

def gcdList (l : List Nat) : Nat := l.foldl Nat.gcd 0

/-- `short_candles[0] = _get_fixed_jumped_candle(previous, short_candles[0])` (only when `i != 0`) -/
def fixedFirst (cs : List Candle) (i : Nat) : List Candle :=
  if i ≠ 0 then (match fixedRow cs i with | some c => cs.set i c | none => cs) else cs

/-- the per-symbol part of one iteration of `_skip_simulator` (rows `[i, i+step)`): only the first candle of
    the chunk is jump-fixed -/
def symSkip (fuel : Nat) (i step : Nat) (acc : Engine M × List (List Candle)) (sym : Nat) : Engine M × List (List Candle) :=
  if acc.1.err.isSome then acc else
  let cs' := fixedFirst (acc.2.getD sym []) i
  let chunk := Py.slice cs' (some (i : Int)) (some ((i : Int) + step))
  let e1 := simulateChunk u fuel acc.1 sym chunk
  let e2 := (tfsOf acc.1.cfg sym).foldl (fun (e : Engine M) (tf : Nat) =>
    if (i + step) % tf = 0 then
      match Jesse.Gen.generateCandle tf (Py.slice cs' (some ((i : Int) - (tf : Int) + step)) (some ((i : Int) + step))) False with
      | .ok g => addCandle e sym tf g
      | .error k => fail e k
    else e) e1
  (e2, acc.2.set sym cs')

/-- one iteration of `_skip_simulator` starting at row `i` with `step` rows -/
def skipAt (fuel : Nat) (inputs : List (List Candle)) (e : Engine M) (i step : Nat) : Engine M × List (List Candle) :=
  if e.err.isSome then (e, inputs) else
  let res := (List.range e.cfg.nsym).foldl (symSkip u fuel i step) (e, inputs)
  (routesStep u fuel res.1 i (i + step), res.2)

/-- the first `k` iterations of `_skip_simulator` (chunks of `step` rows; the last chunk of a session may
    be shorter) after the initial equity sample -/
def runSkipN (fuel : Nat) (inputs : List (List Candle)) (e : Engine M) (step k : Nat) : Engine M × List (List Candle) :=
  let n := (inputs.getD 0 []).length
  let e0 := saveDaily { e with time := (((inputs.getD 0 [])[0]?).map (·.ts)).getD 0 }
  (List.range k).foldl (fun (acc : Engine M × List (List Candle)) j =>
    skipAt u fuel acc.2 acc.1 (j * step) (min step (n - j * step))) (e0, inputs)

/-- `_skip_simulator` -/
def runSkip (fuel : Nat) (inputs : List (List Candle)) (e : Engine M) : Engine M :=
  let n := (inputs.getD 0 []).length
  let step := gcdList ((e.cfg.routes ++ e.cfg.dataRoutes).map (·.tf))
  if step = 0 then fail (saveDaily { e with time := (((inputs.getD 0 [])[0]?).map (·.ts)).getD 0 }) .Other else
  finishRun u fuel (runSkipN u fuel inputs e step ((n + step - 1) / step)).1

end strategy

/-- a fresh engine -/
def initEngine [Inhabited M] (cfg : Cfg) (kind : Kind) (balance fee leverage : Rat) (m0 : M) : Engine M :=
  { cfg := cfg, w := Acc.init kind balance fee leverage cfg.nsym, via := [], storage := List.replicate cfg.nsym [],
    toExecute := [], stores := List.replicate cfg.nsym {}, time := 0,
    strat := List.replicate cfg.routes.length { mem := m0 }, daily := [], liquidations := 0 }

end Jesse.Eng
