/-
  Jesse/Dna.lean — hand model of the loop of `jh.dna_to_hp` around the GENERATED per-gene body
  (`Jesse.Gen.decodeGene`): `for gene, h in zip(dna, strategy_hp)`, stopping at the first error.
-/
import Jesse.Gen.Helpers

namespace Jesse.Dna
open Jesse.Gen

def dnaToHp (hs : List HpDecl) (dna : List Nat) : Except Jesse.Err (List Rat) :=
  match dna, hs with
  | g :: gs, h :: hs' =>
      match decodeGene h g with
      | .error e => .error e
      | .ok v => match dnaToHp hs' gs with
        | .error e => .error e
        | .ok vs => .ok (v :: vs)
  | _, _ => .ok []

end Jesse.Dna
