/-
  Jesse/Dna.lean — hand model of the loop of `jh.dna_to_hp` around the GENERATED per-gene body
  (`Jesse.Gen.decodeGene`): `for gene, h in zip(dna, strategy_hp)`, stopping at the first error.
-/
import Jesse.Gen.Helpers

namespace Jesse.Dna
open Jesse.Gen

def dnaToHp (hs : List HpDecl) (dna : List Nat) : Except Jesse.Err (List Rat) :=
  match dna, hs with
  | g :: gs, h :: hs' =>
      match decodeGene h g with
      | .error e => .error e
      | .ok v => match dnaToHp hs' gs with
        | .error e => .error e
        | .ok vs => .ok (v :: vs)
  | _, _ => .ok []

end Jesse.Dna

namespace Jesse.Dna
open Jesse.Gen

/-- what a strategy class declares: its hyperparameter declarations with defaults, and its dna() -/
structure StratDecl where
  decls : List HpDecl
  defaults : List Rat
  dna : List Nat

/-- `hp` as a strategy sees it: `none` (no hyperparameters at all) or the list of values in
    declaration order.  An explicitly passed dict is represented by its values. -/
abbrev Hp := Option (List Rat)

/-- Hand model of the loop of `_prepare_routes` (jesse/modes/backtest_mode.py) together with
    `Strategy._init_objects`: per route, `route_hyperparameters = hyperparameters`; if the strategy
    has a dna() and no explicit values were passed, decode it; inject when not None; otherwise
    `_init_objects` falls back to the declared defaults.  `explicit` is the function argument and is
    threaded through the loop exactly as the code does (it is never reassigned). -/
def prepareRoute (explicit : Hp) (s : StratDecl) : Except Jesse.Err Hp :=
  let routeHp : Except Jesse.Err Hp :=
    if s.dna.length > 0 ∧ explicit = none then
      (match dnaToHp s.decls s.dna with | .error e => .error e | .ok v => .ok (some v))
    else .ok explicit
  match routeHp with
  | .error e => .error e
  | .ok (some v) => .ok (some v)
  | .ok none => if s.decls.length > 0 then .ok (some s.defaults) else .ok none

def prepareRoutes (explicit : Hp) : List StratDecl → Except Jesse.Err (List Hp)
  | [] => .ok []
  | s :: rest =>
    match prepareRoute explicit s with
    | .error e => .error e
    | .ok h => match prepareRoutes explicit rest with
      | .error e => .error e
      | .ok hs => .ok (h :: hs)

end Jesse.Dna
