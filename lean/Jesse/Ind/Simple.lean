/-
  Jesse/Ind/Simple.lean — price transforms, roc, mom, obv, donchian, willr, true range, atr,
  mirroring jesse/indicators/{avgprice,medprice,typprice,wclprice,roc,mom,obv,donchian,willr,trange,atr}.py.
-/
import Jesse.Ind.MA

namespace Jesse.Ind

/-! ### price transforms (input: candles) -/

/-- avgprice.py: `(open + high + low + close) / 4` -/
def avgprice (cs : List Candle) : Ser := cs.map (fun k => some ((k.o + k.h + k.l + k.c) / 4))
/-- medprice.py: `(high + low) / 2` -/
def medprice (cs : List Candle) : Ser := cs.map (fun k => some ((k.h + k.l) / 2))
/-- typprice.py: `(close + high + low) / 3` -/
def typprice (cs : List Candle) : Ser := cs.map (fun k => some ((k.c + k.h + k.l) / 3))
/-- wclprice.py: `(high + low + 2*close) / 4` -/
def wclprice (cs : List Candle) : Ser := cs.map (fun k => some ((k.h + k.l + 2 * k.c) / 4))

/-! ### lag reads -/

/-- `pre[-1-k]` of a prefix `pre = xs[:i+1]`, i.e. `xs[i-k]`, for `k ≤ i` (none otherwise: no wrap) -/
def back {α} (k : Nat) (pre : List α) : Option α :=
  if k < pre.length then pre[pre.length - 1 - k]? else none

/-- roc.py: `res[period:] = (source[period:] / source[:-period] - 1) * 100` (needs `n > period`) -/
def roc (p : Nat) (xs : List Rat) : Ser :=
  pmap (fun pre => if pre.length ≤ p then none else
    odiv (back 0 pre) (back p pre) |>.map (fun q => (q - 1) * 100)) xs

/-- mom.py: `res[period:] = source[period:] - source[:-period]` -/
def mom (p : Nat) (xs : List Rat) : Ser :=
  pmap (fun pre => if pre.length ≤ p then none else osub (back 0 pre) (back p pre)) xs

/-- obv.py: `obv[0] = volume[0]`, then `± volume[i]` by the sign of `close[i] - close[i-1]`;
    state = (previous close, running value) -/
def obvStep (s : Option (Rat × Rat)) (k : Candle) : Option (Rat × Rat) × Option Rat :=
  match s with
  | none => (some (k.c, k.v), some k.v)
  | some (pc, acc) =>
    (some (k.c, acc + (if k.c > pc then k.v else if k.c < pc then -k.v else 0)),
     some (acc + (if k.c > pc then k.v else if k.c < pc then -k.v else 0)))

def obv (cs : List Candle) : Ser := scanState obvStep none cs

/-! ### channels over a trailing window of candles -/

def highs (w : List Candle) : List Rat := w.map (·.h)
def lows (w : List Candle) : List Rat := w.map (·.l)

/-- donchian.py (sequential branch): rolling max of the highs / min of the lows over `period` -/
def donchianUpper (p : Nat) (cs : List Candle) : Ser := trailing p (fun w => some (maxL (highs w))) cs
def donchianLower (p : Nat) (cs : List Candle) : Ser := trailing p (fun w => some (minL (lows w))) cs
def donchianMiddle (p : Nat) (cs : List Candle) : Ser :=
  trailing p (fun w => some ((maxL (highs w) + minL (lows w)) / 2)) cs

/-- willr.py: `((max - close) / denom) * -100`, 0 when `denom = 0` -/
def willrWin (w : List Candle) : Option Rat :=
  match w.getLast? with
  | none => none
  | some k =>
    if maxL (highs w) - minL (lows w) = 0 then some 0
    else some ((maxL (highs w) - k.c) / (maxL (highs w) - minL (lows w)) * (-100))

def willr (p : Nat) (cs : List Candle) : Ser := trailing p willrWin cs

/-! ### true range, atr -/

/-- one row of the true range given the previous close (`none` on the first row) -/
def trOf (pc : Option Rat) (k : Candle) : Rat :=
  match pc with
  | none => k.h - k.l
  | some c => maxR (maxR (k.h - k.l) (abs (k.h - c))) (abs (k.l - c))

def trStep (pc : Option Rat) (k : Candle) : Option Rat × Rat := (some k.c, trOf pc k)

/-- trange.py / the first loop of atr.py `_atr` -/
def trR (cs : List Candle) : List Rat := scanState trStep none cs

def trange (cs : List Candle) : Ser := (trR cs).map some

/-- atr.py: mean of the first `period` true ranges at row `period-1`, then Wilder's smoothing -/
def atr (p : Nat) (cs : List Candle) : Ser := seeded p (wilderUpd p) (trR cs)

end Jesse.Ind
