/-
  Jesse/Ind/Dir.lean — directional movement family, mirroring jesse/indicators/{dm,di,dx,adx}.py.
-/
import Jesse.Ind.Simple

namespace Jesse.Ind

/-- `+DM` / `-DM` of a row from the previous high/low -/
def plusDM (ph pl : Rat) (k : Candle) : Rat :=
  if k.h - ph > pl - k.l ∧ k.h - ph > 0 then k.h - ph else 0
def minusDM (ph pl : Rat) (k : Candle) : Rat :=
  if pl - k.l > k.h - ph ∧ pl - k.l > 0 then pl - k.l else 0

/-- Wilder's running-sum step `s - s/p + x` -/
def wsumUpd (p : Nat) (s x : Rat) : Rat := s - s / (p : Rat) + x

/-! ### dm.py -/

structure DmSt where
  n : Nat
  ph : Rat
  pl : Rat
  sp : Rat
  sm : Rat

def dmStep (p : Nat) (s : DmSt) (k : Candle) : DmSt × Option (Rat × Rat) :=
  if s.n = 0 then ({ n := 1, ph := k.h, pl := k.l, sp := 0, sm := 0 }, none)
  else if s.n < p then
    ({ n := s.n + 1, ph := k.h, pl := k.l, sp := s.sp + plusDM s.ph s.pl k, sm := s.sm + minusDM s.ph s.pl k }, none)
  else if s.n = p then
    ({ n := s.n + 1, ph := k.h, pl := k.l, sp := s.sp + plusDM s.ph s.pl k, sm := s.sm + minusDM s.ph s.pl k },
     some (s.sp + plusDM s.ph s.pl k, s.sm + minusDM s.ph s.pl k))
  else
    ({ n := s.n + 1, ph := k.h, pl := k.l, sp := wsumUpd p s.sp (plusDM s.ph s.pl k), sm := wsumUpd p s.sm (minusDM s.ph s.pl k) },
     some (wsumUpd p s.sp (plusDM s.ph s.pl k), wsumUpd p s.sm (minusDM s.ph s.pl k)))

/-- dm.py: first smoothed value at row `period` = sum of the raw movements of rows 1..period,
    then `s - s/period + raw` -/
def dmPairs (p : Nat) (cs : List Candle) : List (Option (Rat × Rat)) :=
  scanState (dmStep p) { n := 0, ph := 0, pl := 0, sp := 0, sm := 0 } cs

def dmPlus (p : Nat) (cs : List Candle) : Ser := (dmPairs p cs).map (Option.map (·.1))
def dmMinus (p : Nat) (cs : List Candle) : Ser := (dmPairs p cs).map (Option.map (·.2))

/-! ### di.py -/

structure DiSt where
  n : Nat
  ph : Rat
  pl : Rat
  pc : Rat
  atr : Rat     -- running sum of TR while seeding, then Wilder's average
  sp : Rat      -- running SUM of +DM while seeding; then (sum-seeded!) Wilder's average
  sm : Rat

def diOut (atr s : Rat) : Rat := if atr = 0 then 0 else 100 * s / atr

def diStep (p : Nat) (s : DiSt) (k : Candle) : DiSt × Option (Rat × Rat) :=
  if s.n = 0 then ({ n := 1, ph := k.h, pl := k.l, pc := k.c, atr := 0, sp := 0, sm := 0 }, none)
  else if s.n < p then
    ({ n := s.n + 1, ph := k.h, pl := k.l, pc := k.c, atr := s.atr + trOf (some s.pc) k,
       sp := s.sp + plusDM s.ph s.pl k, sm := s.sm + minusDM s.ph s.pl k }, none)
  else if s.n = p then
    ({ n := s.n + 1, ph := k.h, pl := k.l, pc := k.c, atr := (s.atr + trOf (some s.pc) k) / (p : Rat),
       sp := s.sp + plusDM s.ph s.pl k, sm := s.sm + minusDM s.ph s.pl k },
     some (diOut ((s.atr + trOf (some s.pc) k) / (p : Rat)) (s.sp + plusDM s.ph s.pl k),
           diOut ((s.atr + trOf (some s.pc) k) / (p : Rat)) (s.sm + minusDM s.ph s.pl k)))
  else
    ({ n := s.n + 1, ph := k.h, pl := k.l, pc := k.c, atr := wilderUpd p s.atr (trOf (some s.pc) k),
       sp := wilderUpd p s.sp (plusDM s.ph s.pl k), sm := wilderUpd p s.sm (minusDM s.ph s.pl k) },
     some (diOut (wilderUpd p s.atr (trOf (some s.pc) k)) (wilderUpd p s.sp (plusDM s.ph s.pl k)),
           diOut (wilderUpd p s.atr (trOf (some s.pc) k)) (wilderUpd p s.sm (minusDM s.ph s.pl k))))

/-- di.py: `atr` is seeded with the MEAN of the first `period` true ranges, the smoothed movements
    with their SUM, and all three are then averaged Wilder-style; the value of row `i ≥ period` uses the
    smoothed values of row `i` (index `i-1` of the code's difference arrays) -/
def diPairs (p : Nat) (cs : List Candle) : List (Option (Rat × Rat)) :=
  scanState (diStep p) { n := 0, ph := 0, pl := 0, pc := 0, atr := 0, sp := 0, sm := 0 } cs

def diPlus (p : Nat) (cs : List Candle) : Ser := (diPairs p cs).map (Option.map (·.1))
def diMinus (p : Nat) (cs : List Candle) : Ser := (diPairs p cs).map (Option.map (·.2))

/-! ### dx.py (smooths with `rma`, whose seed wraps around — see `rmaSeed`) -/

/-- dx.py `_fast_dm_tr`: row 0 = (0, 0, high-low) -/
def dmtrStep (s : Option (Rat × Rat × Rat)) (k : Candle) : Option (Rat × Rat × Rat) × (Rat × Rat × Rat) :=
  match s with
  | none => (some (k.h, k.l, k.c), (0, 0, k.h - k.l))
  | some (ph, pl, pc) => (some (k.h, k.l, k.c), (plusDM ph pl k, minusDM ph pl k, trOf (some pc) k))

def dmtr (cs : List Candle) : List (Rat × Rat × Rat) := scanState dmtrStep none cs

def dxDI (dl : Nat) (sel : Rat × Rat × Rat → Rat) (cs : List Candle) : List Rat :=
  List.zipWith (fun t m => if t = 0 then 0 else 100 * m / t)
    (rmaR dl ((dmtr cs).map (·.2.2))) (rmaR dl ((dmtr cs).map sel))

def dxPlusDI (dl : Nat) (cs : List Candle) : List Rat := dxDI dl (·.1) cs
def dxMinusDI (dl : Nat) (cs : List Candle) : List Rat := dxDI dl (·.2.1) cs

def dxIndex (dl : Nat) (cs : List Candle) : List Rat :=
  List.zipWith (fun a b => abs (a - b) / (if a + b = 0 then 1 else a + b)) (dxPlusDI dl cs) (dxMinusDI dl cs)

def dxAdx (dl sm : Nat) (cs : List Candle) : List Rat := (rmaR sm (dxIndex dl cs)).map (100 * ·)

/-! ### adx.py `_calculate_adx` -/

structure AdxSt where
  n : Nat
  ph : Rat
  pl : Rat
  pc : Rat
  tr : Rat
  sp : Rat
  sm : Rat
  acc : Rat      -- sum of DX[period .. 2·period-1]
  adx : Rat

/-- `DX[i]` from the three smoothed sums -/
def dxOf (tr sp sm : Rat) : Rat :=
  if tr ≠ 0 then
    (if 100 * sp / tr + 100 * sm / tr ≠ 0
     then 100 * abs (100 * sp / tr - 100 * sm / tr) / (100 * sp / tr + 100 * sm / tr) else 0)
  else 0

def adxStep (p : Nat) (s : AdxSt) (k : Candle) : AdxSt × Option Rat :=
  if s.n = 0 then ({ s with n := 1, ph := k.h, pl := k.l, pc := k.c }, none)
  else if s.n < p then
    ({ s with n := s.n + 1, ph := k.h, pl := k.l, pc := k.c, tr := s.tr + trOf (some s.pc) k,
              sp := s.sp + plusDM s.ph s.pl k, sm := s.sm + minusDM s.ph s.pl k }, none)
  else if s.n = p then
    ({ s with n := s.n + 1, ph := k.h, pl := k.l, pc := k.c, tr := s.tr + trOf (some s.pc) k,
              sp := s.sp + plusDM s.ph s.pl k, sm := s.sm + minusDM s.ph s.pl k,
              acc := dxOf (s.tr + trOf (some s.pc) k) (s.sp + plusDM s.ph s.pl k) (s.sm + minusDM s.ph s.pl k) }, none)
  else if s.n < 2 * p then
    ({ s with n := s.n + 1, ph := k.h, pl := k.l, pc := k.c, tr := wsumUpd p s.tr (trOf (some s.pc) k),
              sp := wsumUpd p s.sp (plusDM s.ph s.pl k), sm := wsumUpd p s.sm (minusDM s.ph s.pl k),
              acc := s.acc + dxOf (wsumUpd p s.tr (trOf (some s.pc) k)) (wsumUpd p s.sp (plusDM s.ph s.pl k))
                                  (wsumUpd p s.sm (minusDM s.ph s.pl k)) }, none)
  else if s.n = 2 * p then
    -- `ADX[2p] = mean(DX[p:2p])`: the DX of this row is NOT used
    ({ s with n := s.n + 1, ph := k.h, pl := k.l, pc := k.c, tr := wsumUpd p s.tr (trOf (some s.pc) k),
              sp := wsumUpd p s.sp (plusDM s.ph s.pl k), sm := wsumUpd p s.sm (minusDM s.ph s.pl k),
              adx := s.acc / (p : Rat) }, some (s.acc / (p : Rat)))
  else
    ({ s with n := s.n + 1, ph := k.h, pl := k.l, pc := k.c, tr := wsumUpd p s.tr (trOf (some s.pc) k),
              sp := wsumUpd p s.sp (plusDM s.ph s.pl k), sm := wsumUpd p s.sm (minusDM s.ph s.pl k),
              adx := wilderUpd p s.adx (dxOf (wsumUpd p s.tr (trOf (some s.pc) k)) (wsumUpd p s.sp (plusDM s.ph s.pl k))
                                             (wsumUpd p s.sm (minusDM s.ph s.pl k))) },
     some (wilderUpd p s.adx (dxOf (wsumUpd p s.tr (trOf (some s.pc) k)) (wsumUpd p s.sp (plusDM s.ph s.pl k))
                                   (wsumUpd p s.sm (minusDM s.ph s.pl k)))))

/-- adx.py (for more than `period` candles; the short-input early return is C14's business) -/
def adx (p : Nat) (cs : List Candle) : Ser :=
  scanState (adxStep p) { n := 0, ph := 0, pl := 0, pc := 0, tr := 0, sp := 0, sm := 0, acc := 0, adx := 0 } cs

end Jesse.Ind
