/-
  Jesse/Ind/Off.lean — the indicators whose kernels read beyond the current row on the unchanged
  tree (C13 offenders) and the extrema detector, mirroring
  jesse/indicators/{emd,lrsi,er,mab,minmax}.py.  Every `i - k` index of the code is kept as a
  `Py.getIdx` read on the FULL array, so the negative-index wrap-around stays visible.
-/
import Jesse.Ind.Osc

namespace Jesse.Ind

/-- `arr[i]` with Python index semantics, 0 for an IndexError (never reached in the kernels below
    for inputs of at least 3 rows) -/
def pyAt (xs : List Rat) (i : Int) : Rat := (Py.getIdx xs i).getD 0

/-! ### emd.py -/

/-- `bp_fast`: `bp[i] = 0.5*(1-alpha)*(price[i] - price[i-2]) [+ beta*(1+alpha)*bp[i-1] - alpha*bp[i-2] if i > 2]`;
    state = (i, bp[i-1], bp[i-2]).  `alpha`, `beta` are the filter constants (cos / sqrt of the period,
    computed by the caller). -/
def emdBpStep (price : List Rat) (a b : Rat) (s : Nat × Rat × Rat) (x : Rat) : (Nat × Rat × Rat) × Rat :=
  ((s.1 + 1,
    (1 / 2 * (1 - a) * (x - pyAt price ((s.1 : Int) - 2)) + (if s.1 > 2 then b * (1 + a) * s.2.1 - a * s.2.2 else 0)),
    s.2.1),
   (1 / 2 * (1 - a) * (x - pyAt price ((s.1 : Int) - 2)) + (if s.1 > 2 then b * (1 + a) * s.2.1 - a * s.2.2 else 0)))

def emdBp (a b : Rat) (price : List Rat) : List Rat := scanState (emdBpStep price a b) (0, 0, 0) price

/-- `peak_valley_fast`: `peak[i] = peak[i-1]` (at `i = 0`: `peak[-1]`, the LAST band-pass value, since
    `peak` starts as a copy of `bp`), replaced by `bp[i-1]` at a local maximum when `i > 2`;
    state = (i, peak[i-1], bp[i-1], bp[i-2]) -/
def emdPeakStep (gt : Bool) (s : Nat × Rat × Rat × Rat) (x : Rat) : (Nat × Rat × Rat × Rat) × Rat :=
  ((s.1 + 1,
    (if s.1 > 2 ∧ (if gt then s.2.2.1 > x ∧ s.2.2.1 > s.2.2.2 else s.2.2.1 < x ∧ s.2.2.1 < s.2.2.2) then s.2.2.1 else s.2.1),
    x, s.2.2.1),
   (if s.1 > 2 ∧ (if gt then s.2.2.1 > x ∧ s.2.2.1 > s.2.2.2 else s.2.2.1 < x ∧ s.2.2.1 < s.2.2.2) then s.2.2.1 else s.2.1))

def emdPeak (gt : Bool) (bp : List Rat) : List Rat :=
  scanState (emdPeakStep gt) (0, pyAt bp ((0 : Int) - 1), 0, 0) bp

def hl2 (cs : List Candle) : List Rat := cs.map (fun k => (k.h + k.l) / 2)

/-- emd.py: `mean = sma(bp, 2*period)`, bands = `fraction * sma(peak | valley, 50)` -/
def emdMiddle (p : Nat) (a b : Rat) (cs : List Candle) : Ser := sma (2 * p) (emdBp a b (hl2 cs))
def emdUpper (fr a b : Rat) (cs : List Candle) : Ser := (sma 50 (emdPeak true (emdBp a b (hl2 cs)))).map (oscale fr)
def emdLower (fr a b : Rat) (cs : List Candle) : Ser := (sma 50 (emdPeak false (emdBp a b (hl2 cs)))).map (oscale fr)

/-! ### lrsi.py -/

structure LagSt where
  l0 : Rat
  l1 : Rat
  l2 : Rat
  l3 : Rat

def lagNext (al : Rat) (s : LagSt) (x : Rat) : LagSt :=
  { l0 := al * x + (1 - al) * s.l0,
    l1 := -(1 - al) * (al * x + (1 - al) * s.l0) + s.l0 + (1 - al) * s.l1,
    l2 := -(1 - al) * (-(1 - al) * (al * x + (1 - al) * s.l0) + s.l0 + (1 - al) * s.l1) + s.l1 + (1 - al) * s.l2,
    l3 := -(1 - al) * (-(1 - al) * (-(1 - al) * (al * x + (1 - al) * s.l0) + s.l0 + (1 - al) * s.l1) + s.l1 + (1 - al) * s.l2)
            + s.l2 + (1 - al) * s.l3 }

def lagCu (s : LagSt) : Rat :=
  (if s.l0 ≥ s.l1 then s.l0 - s.l1 else 0) + (if s.l1 ≥ s.l2 then s.l1 - s.l2 else 0) + (if s.l2 ≥ s.l3 then s.l2 - s.l3 else 0)
def lagCd (s : LagSt) : Rat :=
  (if s.l0 ≥ s.l1 then 0 else s.l1 - s.l0) + (if s.l1 ≥ s.l2 then 0 else s.l2 - s.l1) + (if s.l2 ≥ s.l3 then 0 else s.l3 - s.l2)

def lrsiStep (al : Rat) (s : LagSt) (x : Rat) : LagSt × Rat :=
  (lagNext al s x,
   if lagCu (lagNext al s x) + lagCd (lagNext al s x) = 0 then 0
   else lagCu (lagNext al s x) / (lagCu (lagNext al s x) + lagCd (lagNext al s x)))

/-- lrsi.py `lrsi_fast`: the four stages start as copies of `price`, and row 0 reads `l·[i-1] = l·[-1]`,
    the LAST price -/
def lrsiR (al : Rat) (price : List Rat) : List Rat :=
  scanState (lrsiStep al)
    { l0 := pyAt price ((0 : Int) - 1), l1 := pyAt price ((0 : Int) - 1),
      l2 := pyAt price ((0 : Int) - 1), l3 := pyAt price ((0 : Int) - 1) } price

def lrsi (al : Rat) (cs : List Candle) : Ser := (lrsiR al (hl2 cs)).map some

/-! ### er.py -/

def diff1 (xs : List Rat) : List Rat := List.zipWith (fun a b => b - a) xs (xs.drop 1)

/-- `np.diff(a, n)`: the n-th order discrete difference -/
def diffN : Nat → List Rat → List Rat
  | 0, xs => xs
  | n + 1, xs => diffN n (diff1 xs)

/-- `sliding_window_view(abs_dif, period).sum()`: the sum over ALL windows of the WHOLE series -/
def erVolatility (p : Nat) (xs : List Rat) : Rat :=
  sum ((List.range ((diff1 xs).length + 1 - p)).map (fun j => sum ((((diff1 xs).map abs).drop j).take p)))

/-- er.py: `|np.diff(source, period)| / volatility`, NaN-padded in front -/
def er (p : Nat) (xs : List Rat) : Ser :=
  padFront xs.length (((diffN p xs).map abs).map (fun c => odiv (some c) (some (erVolatility p xs))))

/-! ### mab.py (matype 0: sma for both averages; abstract `sqrt`) -/

/-- `np.sum(np.power(fast - slow, 2)[-fast_period:]) / fast_period`: ONE number from the last rows -/
def mabSqAvg (fp sp : Nat) (xs : List Rat) : Option Rat :=
  (allSome (lastN fp (List.zipWith (fun a b => omul (osub a b) (osub a b)) (sma fp xs) (sma sp xs)))).map
    (fun v => sum v / (fp : Rat))

def mabMiddle (fp : Nat) (xs : List Rat) : Ser := sma fp xs
def mabUpper (sqrt : Rat → Rat) (fp sp : Nat) (du : Rat) (xs : List Rat) : Ser :=
  (sma sp xs).map (fun s => oadd s (oscale du ((mabSqAvg fp sp xs).map sqrt)))
def mabLower (sqrt : Rat → Rat) (fp sp : Nat) (dd : Rat) (xs : List Rat) : Ser :=
  (sma sp xs).map (fun s => osub s (oscale dd ((mabSqAvg fp sp xs).map sqrt)))

/-! ### minmax.py (`scipy.signal.argrelextrema(..., order, mode='clip')`) -/

/-- index clipped to `[0, n-1]` -/
def clipIdx (n : Nat) (i : Int) : Nat := if i < 0 then 0 else if i.toNat ≥ n then n - 1 else i.toNat

/-- `data[i]` strictly beats (`less` / `greater`) both neighbours at every distance 1..order, with
    out-of-range neighbours clipped to the ends -/
def isExtremum (lt : Bool) (order : Nat) (xs : List Rat) (i : Nat) : Bool :=
  (List.range order).all (fun j =>
    match xs[i]?, xs[clipIdx xs.length ((i : Int) + (j + 1 : Nat))]?, xs[clipIdx xs.length ((i : Int) - (j + 1 : Nat))]? with
    | some x, some a, some b => if lt then decide (x < a) && decide (x < b) else decide (x > a) && decide (x > b)
    | _, _, _ => false)

def extrema (lt : Bool) (order : Nat) (xs : List Rat) : Ser :=
  imap (fun xs i => if isExtremum lt order xs i then xs[i]? else none) xs

/-- `np_ffill`: carry the last non-NaN value forward -/
def ffillStep (s : Option Rat) (x : Option Rat) : Option Rat × Option Rat :=
  match x with
  | some v => (some v, some v)
  | none => (s, s)

def ffill (ys : Ser) : Ser := scanState ffillStep none ys

def minmaxIsMin (order : Nat) (cs : List Candle) : Ser := extrema true order (cs.map (·.l))
def minmaxIsMax (order : Nat) (cs : List Candle) : Ser := extrema false order (cs.map (·.h))
def minmaxLastMin (order : Nat) (cs : List Candle) : Ser := ffill (minmaxIsMin order cs)
def minmaxLastMax (order : Nat) (cs : List Candle) : Ser := ffill (minmaxIsMax order cs)

end Jesse.Ind
