/-
  Jesse/Ind/Osc.lean — rsi, macd, stoch, stochf, cci, mfi, stddev, var, bollinger_bands, keltner,
  mirroring jesse/indicators/{rsi,macd,stochastic,stochf,cci,mfi,stddev,var,bollinger_bands,keltner}.py
  (default matypes: sma for stoch/stochf/bollinger, ema for keltner).
-/
import Jesse.Ind.Simple

namespace Jesse.Ind

/-! ### RSI (rsi.py `_rsi`) -/

structure RsiSt where
  n : Nat          -- rows seen
  prev : Rat       -- previous price
  g : Rat          -- running sum of gains while seeding, then Wilder's average gain
  l : Rat          -- same for losses

def gainOf (ch : Rat) : Rat := if ch > 0 then ch else 0
def lossOf (ch : Rat) : Rat := if ch < 0 then -ch else 0

/-- `100.0` if `avg_loss == 0` else `100 - 100/(1 + avg_gain/avg_loss)` -/
def rsiVal (g l : Rat) : Rat := if l = 0 then 100 else 100 - 100 / (1 + g / l)

def rsiStep (p : Nat) (s : RsiSt) (x : Rat) : RsiSt × Option Rat :=
  if s.n = 0 then ({ n := 1, prev := x, g := 0, l := 0 }, none)
  else if s.n < p then
    ({ n := s.n + 1, prev := x, g := s.g + gainOf (x - s.prev), l := s.l + lossOf (x - s.prev) }, none)
  else if s.n = p then
    ({ n := s.n + 1, prev := x, g := (s.g + gainOf (x - s.prev)) / (p : Rat), l := (s.l + lossOf (x - s.prev)) / (p : Rat) },
     some (rsiVal ((s.g + gainOf (x - s.prev)) / (p : Rat)) ((s.l + lossOf (x - s.prev)) / (p : Rat))))
  else
    ({ n := s.n + 1, prev := x, g := wilderUpd p s.g (gainOf (x - s.prev)), l := wilderUpd p s.l (lossOf (x - s.prev)) },
     some (rsiVal (wilderUpd p s.g (gainOf (x - s.prev))) (wilderUpd p s.l (lossOf (x - s.prev)))))

/-- rsi.py: NaN up to row `period-1`; first value at row `period` from the plain averages of the
    first `period` changes; then Wilder's smoothing of gains and losses -/
def rsi (p : Nat) (xs : List Rat) : Ser := scanState (rsiStep p) { n := 0, prev := 0, g := 0, l := 0 } xs

/-! ### MACD (macd.py; `ema_numba` starts at `source[0]`) -/

def macdLine (f s : Nat) (xs : List Rat) : List Rat :=
  List.zipWith (fun a b => a - b) (ema0 (alphaOf f) xs) (ema0 (alphaOf s) xs)
def macdSignal (f s g : Nat) (xs : List Rat) : List Rat := ema0 (alphaOf g) (macdLine f s xs)
def macdHist (f s g : Nat) (xs : List Rat) : List Rat :=
  List.zipWith (fun a b => a - b) (macdLine f s xs) (macdSignal f s g xs)

/-! ### stochastics (stochastic.py, stochf.py; `ma(..., matype=0)` = sma, NaN-propagating) -/

/-- sma.py on a series that may contain NaN: a window with a NaN gives NaN (np.convolve) -/
def smaO (p : Nat) (ys : Ser) : Ser :=
  trailing p (fun w => (allSome w).map (fun v => dot v (List.replicate p (1 / (p : Rat))))) ys

/-- `100 * (close - ll) / (hh - ll)` on a window of candles; `0/0` is NaN.  (On valid candles
    `hh = ll` forces `close = ll`, so ±inf cannot occur.) -/
def percentKWin (w : List Candle) : Option Rat :=
  match w.getLast? with
  | none => none
  | some k => odiv (some (100 * (k.c - minL (lows w)))) (some (maxL (highs w) - minL (lows w)))

/-- stochastic.py `_rolling_max/_rolling_min`: NaN before row `window-1` -/
def stochRaw (p : Nat) (cs : List Candle) : Ser := trailing p percentKWin cs

def stochK (fk sk : Nat) (cs : List Candle) : Ser := smaO sk (stochRaw fk cs)
def stochD (fk sk sd : Nat) (cs : List Candle) : Ser := smaO sd (stochK fk sk cs)

/-- stochf.py `_rolling_max/_rolling_min`: cumulative max/min over the rows there are before row `window-1` -/
def stochfK (p : Nat) (cs : List Candle) : Ser := pmap (fun pre => percentKWin (lastN p pre)) cs
def stochfD (p fd : Nat) (cs : List Candle) : Ser := smaO fd (stochfK p cs)

/-! ### CCI (cci.py `calculate_cci_loop`) -/

def tpOf (k : Candle) : Rat := (k.h + k.l + k.c) / 3

def cciWin (p : Nat) (w : List Rat) : Option Rat :=
  match w.getLast? with
  | none => none
  | some t =>
    if sum (w.map (fun x => abs (x - sum w / (p : Rat)))) / (p : Rat) = 0 then some 0
    else some ((t - sum w / (p : Rat)) / ((15 : Rat) / 1000 * (sum (w.map (fun x => abs (x - sum w / (p : Rat)))) / (p : Rat))))

def cci (p : Nat) (cs : List Candle) : Ser := trailing p (cciWin p) (cs.map tpOf)

/-! ### MFI (mfi.py) -/

/-- (positive flow, negative flow) of a row: raw money flow by the sign of the typical-price change -/
def mfiFlow (pre : List Candle) : Rat × Rat :=
  match back 0 pre, back 1 pre with
  | some k, some j =>
    (if tpOf k > tpOf j then tpOf k * k.v else 0, if tpOf k < tpOf j then tpOf k * k.v else 0)
  | _, _ => (0, 0)

def mfiFlows (cs : List Candle) : List (Rat × Rat) := pmap mfiFlow cs

/-- `100 - 100/(1 + pos/neg)`, with `neg = 0` ↦ ratio = inf ↦ 100 -/
def mfiVal (pos neg : Rat) : Rat := if neg = 0 then 100 else 100 - 100 / (1 + pos / neg)

def mfi (p : Nat) (cs : List Candle) : Ser :=
  trailing p (fun w => some (mfiVal (sum (w.map (·.1))) (sum (w.map (·.2))))) (mfiFlows cs)

/-! ### standard deviation, variance (abstract `sqrt`) -/

def meanOf (p : Nat) (w : List Rat) : Rat := sum w / (p : Rat)

/-- population variance as `np.std` computes it: `mean(|x - mean|²)` -/
def popVar (p : Nat) (w : List Rat) : Rat := sum (w.map (fun x => (x - meanOf p w) * (x - meanOf p w))) / (p : Rat)

/-- stddev.py: `np.std(windows, ddof=0) * nbdev` -/
def stddev (sqrt : Rat → Rat) (p : Nat) (nb : Rat) (xs : List Rat) : Ser :=
  trailing p (fun w => some (sqrt (popVar p w) * nb)) xs

/-- var.py: `(mean(x²) - mean(x)²) * nbdev` -/
def var (p : Nat) (nb : Rat) (xs : List Rat) : Ser :=
  trailing p (fun w => some ((meanOf p (w.map (fun x => x * x)) - meanOf p w * meanOf p w) * nb)) xs

/-- bollinger_bands.py `_moving_std_numba`: `sqrt(max(sum_sq/p - mean², 0))` -/
def bbDev (sqrt : Rat → Rat) (p : Nat) (xs : List Rat) : Ser :=
  trailing p (fun w => some (sqrt (maxR (sum (w.map (fun x => x * x)) / (p : Rat) - meanOf p w * meanOf p w) 0))) xs

def bbMiddle (p : Nat) (xs : List Rat) : Ser := sma p xs
def bbUpper (sqrt : Rat → Rat) (p : Nat) (du : Rat) (xs : List Rat) : Ser :=
  List.zipWith oadd (sma p xs) ((bbDev sqrt p xs).map (oscale du))
def bbLower (sqrt : Rat → Rat) (p : Nat) (dd : Rat) (xs : List Rat) : Ser :=
  List.zipWith osub (sma p xs) ((bbDev sqrt p xs).map (oscale dd))

/-! ### Keltner channel (keltner.py, matype 1 = ema) -/

def keltnerMiddle (p : Nat) (s : Source) (cs : List Candle) : Ser := ema p (source s cs)
def keltnerUpper (p : Nat) (mult : Rat) (s : Source) (cs : List Candle) : Ser :=
  List.zipWith oadd (ema p (source s cs)) ((atr p cs).map (oscale mult))
def keltnerLower (p : Nat) (mult : Rat) (s : Source) (cs : List Candle) : Ser :=
  List.zipWith osub (ema p (source s cs)) ((atr p cs).map (oscale mult))

end Jesse.Ind
