/-
  Jesse/Ind/Wrapper.lean — the public wrapper convention of jesse.indicators (C14):

      candles = slice_candles(candles, sequential)     # keeps the last 240 rows when not sequential
      res = K(candles)
      return res if sequential else res[-1]
-/
import Jesse.Ind.Core

namespace Jesse.Ind

/-- `env.data.warmup_candles_num` default -/
def warmup : Nat := 240

/-- what a public indicator returns: the whole series or one value -/
inductive Res (β : Type) where
  | series (l : List β)
  | single (v : Option β)      -- `none` = IndexError on an empty result

/-- `helpers.slice_candles`: `candles[-240:]` when not sequential and longer than 240 -/
def sliceCandles {α} (seq : Bool) (cs : List α) : List α :=
  if !seq && cs.length > warmup then lastN warmup cs else cs

/-- the standard wrapper around a kernel `K` -/
def wrap {α β} (K : List α → List β) (seq : Bool) (cs : List α) : Res β :=
  if seq then .series (K (sliceCandles seq cs)) else .single (K (sliceCandles seq cs)).getLast?

/-- the last entry of a result (`res[-1]` of a series, the value itself otherwise) -/
def Res.last {β} : Res β → Option β
  | .series l => l.getLast?
  | .single v => v

/-- number of rows of a sequential result -/
def Res.len {β} : Res β → Nat
  | .series l => l.length
  | .single _ => 1

end Jesse.Ind
