/-
  Jesse/Ind/MA.lean — moving-average kernels, mirroring jesse/indicators/{sma,ema,wma,smma,wilders,
  rma,dema,tema,trima}.py.  Input: the source series (`List Rat`), output: `Ser` (NaN = none).
  Periods are `Nat`; the harness uses `p ≥ 1`.
-/
import Jesse.Ind.Core

namespace Jesse.Ind

/-- sma.py: `res[period-1:] = np.convolve(source, np.ones(period)/period, mode='valid')` -/
def sma (p : Nat) (xs : List Rat) : Ser :=
  trailing p (fun w => some (dot w (List.replicate p (1 / (p : Rat))))) xs

/-- A smoother that is NaN for the first `p-1` rows, starts from the plain mean of the first `p`
    inputs and then applies `upd prev x` (ema.py `_ema`, atr.py `_atr`): state = (rows seen,
    running sum while seeding | previous value). -/
def seededStep (p : Nat) (upd : Rat → Rat → Rat) (s : Nat × Rat) (x : Rat) : (Nat × Rat) × Option Rat :=
  if s.1 + 1 < p then ((s.1 + 1, s.2 + x), none)
  else if s.1 + 1 = p then ((s.1 + 1, (s.2 + x) / (p : Rat)), some ((s.2 + x) / (p : Rat)))
  else ((s.1 + 1, upd s.2 x), some (upd s.2 x))

def seeded (p : Nat) (upd : Rat → Rat → Rat) (xs : List Rat) : Ser := scanState (seededStep p upd) (0, 0) xs

def alphaOf (p : Nat) : Rat := 2 / ((p : Rat) + 1)

/-- `alpha*x + (1-alpha)*prev` -/
def emaUpd (a : Rat) (prev x : Rat) : Rat := a * x + (1 - a) * prev

/-- Wilder: `(prev*(period-1) + x) / period` -/
def wilderUpd (p : Nat) (prev x : Rat) : Rat := (prev * ((p : Rat) - 1) + x) / (p : Rat)

/-- ema.py: NaN before `period-1`, seed = mean of the first `period` values, then
    `alpha*x + (1-alpha)*prev` with `alpha = 2/(period+1)` -/
def ema (p : Nat) (xs : List Rat) : Ser := seeded p (emaUpd (alphaOf p)) xs

/-- wma.py: `np.dot(windowed, np.arange(1, period+1)) / weights.sum()` -/
def wma (p : Nat) (xs : List Rat) : Ser :=
  trailing p (fun w => some (dot w (arange1 p) / sum (arange1 p))) xs

/-- Horner form of `Σ_j x_j q^(i-j)` over a prefix -/
def horner (q : Rat) (pre : List Rat) : Rat := pre.foldl (fun acc x => acc * q + x) 0

/-- smma.py `numpy_ewma`: `out[i] = Σ_{j≤i} x_j (1-α)^(i-j) / Σ_{k≤i} (1-α)^k`, `α = 1/window`
    (the closed form of the vectorised expression; the powers of `n` cancel) -/
def smma (p : Nat) (xs : List Rat) : Ser :=
  pmap (fun pre => some (horner (1 - 1 / (p : Rat)) pre / horner (1 - 1 / (p : Rat)) (pre.map (fun _ => 1)))) xs

/-- wilders.py `_wilders_fast`: `res[0] = source[0]`, `res[i] = (res[i-1]*(period-1) + source[i]) / period` -/
def wildersStep (p : Nat) (s : Option Rat) (x : Rat) : Option Rat × Option Rat :=
  match s with
  | none => (some x, some x)
  | some prev => (some (wilderUpd p prev x), some (wilderUpd p prev x))

def wilders (p : Nat) (xs : List Rat) : Ser := scanState (wildersStep p) none xs

/-- rma.py `rma_fast`, first iteration: `newseries[i - 1]` at `i = 0` is `newseries[-1]`, and
    `newseries` is still a copy of `source` there: the LAST element of the input (Python negative
    index).  (The `isnan` branch is unreachable for NaN-free input and is not modelled.) -/
def rmaSeed (xs : List Rat) : Rat := (Py.getIdx xs ((0 : Int) - 1)).getD 0

def rmaStep (p : Nat) (prev : Rat) (x : Rat) : Rat × Rat :=
  (emaUpd (1 / (p : Rat)) prev x, emaUpd (1 / (p : Rat)) prev x)

/-- rma.py: `newseries[i] = alpha*source[i] + (1-alpha)*newseries[i-1]`, `alpha = 1/length`,
    seeded as described at `rmaSeed` -/
def rmaR (p : Nat) (xs : List Rat) : List Rat := scanState (rmaStep p) (rmaSeed xs) xs

def rma (p : Nat) (xs : List Rat) : Ser := (rmaR p xs).map some

/-- dema.py / tema.py / macd.py `_ema`: `ema[0] = x[0]`, `ema[i] = alpha*x[i] + (1-alpha)*ema[i-1]` -/
def ema0Step (a : Rat) (s : Option Rat) (x : Rat) : Option Rat × Rat :=
  match s with
  | none => (some x, x)
  | some prev => (some (emaUpd a prev x), emaUpd a prev x)

def ema0 (a : Rat) (xs : List Rat) : List Rat := scanState (ema0Step a) none xs

/-- dema.py: `2*ema - ema(ema)` -/
def demaR (p : Nat) (xs : List Rat) : List Rat :=
  List.zipWith (fun e1 e2 => 2 * e1 - e2) (ema0 (alphaOf p) xs) (ema0 (alphaOf p) (ema0 (alphaOf p) xs))

def dema (p : Nat) (xs : List Rat) : Ser := (demaR p xs).map some

/-- tema.py: `3*ema1 - 3*ema2 + ema3` -/
def temaR (p : Nat) (xs : List Rat) : List Rat :=
  List.zipWith (fun e12 e3 => e12 + e3)
    (List.zipWith (fun e1 e2 => 3 * e1 - 3 * e2) (ema0 (alphaOf p) xs) (ema0 (alphaOf p) (ema0 (alphaOf p) xs)))
    (ema0 (alphaOf p) (ema0 (alphaOf p) (ema0 (alphaOf p) xs)))

def tema (p : Nat) (xs : List Rat) : Ser := (temaR p xs).map some

/-- `np.arange(a, 0, -1)` = [a, a-1, …, 1] -/
def arangeDown (a : Nat) : List Rat := (arange1 a).reverse

/-- trima.py: triangular weights -/
def trimaWeights (p : Nat) : List Rat :=
  if p % 2 ≠ 0 then arange1 (p / 2 + 1) ++ arangeDown (p / 2) else arange1 (p / 2) ++ arangeDown (p / 2)

/-- trima.py: `np.convolve(source, weights/weights.sum(), mode='valid')` (the weights are symmetric) -/
def trima (p : Nat) (xs : List Rat) : Ser :=
  trailing p (fun w => some (dot w ((trimaWeights p).map (· / sum (trimaWeights p))))) xs

end Jesse.Ind
