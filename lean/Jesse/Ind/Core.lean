/-
  Jesse/Ind/Core.lean — vocabulary of the indicator kernels (DESIGN 4, C13–C15).  Core Lean only.

  Numbers are `Rat` (exact).  A NaN position of a NumPy result is `none` (`Option Rat`); NaN
  propagates through arithmetic (`Option` bind), exactly as it does through `+ - * /` in NumPy.
  Python loops are written with the combinators below so that one lemma per combinator gives
  causality and length preservation (Proofs/Lemmas/Causal.lean):

  * `scanState step s0`  — `for x in xs: (s, y) = step(s, x); out.append(y)`
  * `pmap h`             — `out[i] = h(xs[:i+1])`          (anything that reads only the past)
  * `trailing p g`       — `out[i] = g(xs[i-p+1 : i+1])`, NaN while `i < p-1`
  * `imap g`             — `out[i] = g(xs, i)`             (may read anywhere: used where the code
                           indexes `i - k` at small `i`, through `Py.getIdx`, so that the negative
                           index wrap-around stays visible)
-/
import Jesse.Basic
import Jesse.Py

namespace Jesse.Ind

/-- a series with NaN positions -/
abbrev Ser := List (Option Rat)

/-- left-to-right loop carrying a state -/
def scanState {σ α β} (step : σ → α → σ × β) : σ → List α → List β
  | _, [] => []
  | s, x :: xs => (step s x).2 :: scanState step (step s x).1 xs

/-- `out[i] = h(xs[:i+1])` -/
def pmap {α β} (h : List α → β) (xs : List α) : List β :=
  (List.range xs.length).map (fun i => h (xs.take (i + 1)))

/-- the trailing window of `p` elements ending at the last element of `pre` -/
def lastN {α} (p : Nat) (pre : List α) : List α := pre.drop (pre.length - p)

/-- `out[i] = g(xs[i-p+1 : i+1])` for `i ≥ p-1`, NaN before -/
def trailing {α β} (p : Nat) (g : List α → Option β) (xs : List α) : List (Option β) :=
  pmap (fun pre => if pre.length < p then none else g (lastN p pre)) xs

/-- `out[i] = g(xs, i)` -/
def imap {α β} (g : List α → Nat → β) (xs : List α) : List β :=
  (List.range xs.length).map (g xs)

/-- `jh.np_shift(arr, k, fill)` for `k ≥ 0` (shift to the right, pad the front) -/
def shiftR {α} (k : Nat) (fill : α) (xs : List α) : List α :=
  (List.replicate k fill ++ xs).take xs.length

/-- `jh.same_length(bigger, shorter)`: pad NaN in front up to `n` entries -/
def padFront (n : Nat) (ys : Ser) : Ser := List.replicate (n - ys.length) none ++ ys

def sum (xs : List Rat) : Rat := xs.foldr (· + ·) 0

/-- `np.max` of a non-empty list (0 for the empty list, never used) -/
def maxL : List Rat → Rat
  | [] => 0
  | [x] => x
  | x :: y :: r => maxR x (maxL (y :: r))

def minL : List Rat → Rat
  | [] => 0
  | [x] => x
  | x :: y :: r => minR x (minL (y :: r))

/-- all entries present, or NaN -/
def allSome : List (Option Rat) → Option (List Rat)
  | [] => some []
  | none :: _ => none
  | some x :: r => (allSome r).map (x :: ·)

/-- NaN-propagating arithmetic -/
def oadd (a b : Option Rat) : Option Rat := do let x ← a; let y ← b; pure (x + y)
def osub (a b : Option Rat) : Option Rat := do let x ← a; let y ← b; pure (x - y)
def omul (a b : Option Rat) : Option Rat := do let x ← a; let y ← b; pure (x * y)
def oscale (c : Rat) (a : Option Rat) : Option Rat := a.map (c * ·)
/-- float division: `0/0` is NaN (`none`); `x/0` for `x ≠ 0` is ±inf, which the kernels that use
    `odiv` never produce on valid candles (stated where used) — also mapped to `none`. -/
def odiv (a b : Option Rat) : Option Rat := do
  let x ← a; let y ← b; if y = 0 then none else pure (x / y)

/-- dot product with a weight vector (`np.dot(window, weights)`) -/
def dot : List Rat → List Rat → Rat
  | x :: xs, w :: ws => x * w + dot xs ws
  | _, _ => 0

/-- `[1, 2, …, p]` as rationals (`np.arange(1, p+1)`) -/
def arange1 (p : Nat) : List Rat := (List.range p).map (fun i => ((i + 1 : Nat) : Rat))

/-- `|x|` -/
def abs (x : Rat) : Rat := absR x

/-- the eight source types of `jh.get_candle_source` -/
inductive Source where
  | close | high | low | open_ | volume | hl2 | hlc3 | ohlc4
deriving DecidableEq, Repr, Inhabited

def Source.ofStr? : String → Option Source
  | "close" => some .close | "high" => some .high | "low" => some .low | "open" => some .open_
  | "volume" => some .volume | "hl2" => some .hl2 | "hlc3" => some .hlc3 | "ohlc4" => some .ohlc4
  | _ => none

/-- `jh.get_candle_source` on one row -/
def Source.get (s : Source) (k : Candle) : Rat :=
  match s with
  | .close => k.c | .high => k.h | .low => k.l | .open_ => k.o | .volume => k.v
  | .hl2 => (k.h + k.l) / 2
  | .hlc3 => (k.h + k.l + k.c) / 3
  | .ohlc4 => (k.o + k.h + k.l + k.c) / 4

def source (s : Source) (cs : List Candle) : List Rat := cs.map s.get

/-- Square root on `Rat` to 20 decimal places (integer square root of `⌊x·10^40⌋`), only used by the
    DRIVER to execute kernels that take an abstract `sqrt` (theorems quantify over every `sqrt`). -/
def sqrtNewton (x : Rat) : Rat :=
  if x ≤ 0 then 0 else ((Nat.sqrt ((x * (10 : Rat) ^ 40).floor.toNat) : Nat) : Rat) / (10 : Rat) ^ 20

end Jesse.Ind
