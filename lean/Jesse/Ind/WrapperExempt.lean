/-
  Jesse/Ind/WrapperExempt.lean — the DOCUMENTED exemptions of the wrapper-shape table (C14).
  Hand-maintained mirror of /verif/py2lean/indwrappers_baseline.json (committed; never written at run time):
  the public indicators whose wrapper is not of the standard shape on the unchanged tree, pinned with the exact
  shape the extractor reads today, and the reason.  A wrapper that changes shape no longer matches its pinned
  entry, `C14.table_standard` stops compiling and the check treats that as a broken tie.
-/
import Jesse.Gen.IndWrappers

namespace Jesse.Ind
open Jesse.Gen

/-- non-standard wrappers, with why (see the baseline file for the long form) -/
def exemptWrappers : List WEntry := [
  -- adx: final return is standard; early return for len(candles) <= period yields the scalar np.nan in BOTH modes (`np.nan if sequential else np.nan`), i.e. se
  { name := "adx", file := "adx.py", hasSeq := true, slices := true, fields := [("value", .std), ("early@106", .other "return np.nan if sequential else np.nan")] },
  -- aroon: the two modes are computed separately: sequential builds rolling argmax/argmin arrays via sliding_window_view; non-sequential computes 100*argmax(high
  { name := "aroon", file := "aroon.py", hasSeq := true, slices := true, fields := [("down", .other "if sequential: ; aroon_up = np.full(highs.shape, np.nan, dtype=float) ; aroon_down = np.full(lows.shape, np.nan, dtype=float) ; if len(highs) >= period + 1: ..."), ("up", .other "if sequential: ; aroon_up = np.full(highs.shape, np.nan, dtype=float) ; aroon_down = np.full(lows.shape, np.nan, dtype=float) ; if len(highs) >= period + 1: ...")] },
  -- cfo: non-sequential branch returns None instead of NaN when the last element is NaN (`None if np.isnan(E[-1]) else E[-1]`); otherwise E[-1] of the same E
  { name := "cfo", file := "cfo.py", hasSeq := true, slices := true, fields := [("value", .other "seq: res | nonseq: None if np.isnan(res[-1]) else res[-1]")] },
  -- donchian: the two modes are computed separately: sequential builds rolling max/min via sliding_window_view; non-sequential computes np.max(high[-period:]) / np.
  { name := "donchian", file := "donchian.py", hasSeq := true, slices := true, fields := [("upperband", .other "if sequential: ; from numpy.lib.stride_tricks import sliding_window_view ; n = high.shape[0] ; rolling_max = np.empty(n) ; rolling_min = np.empty(n) ; rollin..."), ("middleband", .other "if sequential: ; from numpy.lib.stride_tricks import sliding_window_view ; n = high.shape[0] ; rolling_max = np.empty(n) ; rolling_min = np.empty(n) ; rollin..."), ("lowerband", .other "if sequential: ; from numpy.lib.stride_tricks import sliding_window_view ; n = high.shape[0] ; rolling_max = np.empty(n) ; rolling_min = np.empty(n) ; rollin...")] },
  -- dti: non-sequential branch returns None instead of NaN when the last element is NaN (`None if np.isnan(E[-1]) else E[-1]`); otherwise E[-1] of the same E
  { name := "dti", file := "dti.py", hasSeq := true, slices := true, fields := [("value", .other "seq: dti_val | nonseq: None if np.isnan(dti_val[-1]) else dti_val[-1]")] },
  -- high_pass: non-sequential branch returns None instead of NaN when the last element is NaN (`None if np.isnan(E[-1]) else E[-1]`); otherwise E[-1] of the same E
  { name := "high_pass", file := "high_pass.py", hasSeq := true, slices := true, fields := [("value", .other "seq: hpf | nonseq: None if np.isnan(hpf[-1]) else hpf[-1]")] },
  -- high_pass_2_pole: non-sequential branch returns None instead of NaN when the last element is NaN (`None if np.isnan(E[-1]) else E[-1]`); otherwise E[-1] of the same E
  { name := "high_pass_2_pole", file := "high_pass_2_pole.py", hasSeq := true, slices := true, fields := [("value", .other "seq: hpf | nonseq: None if np.isnan(hpf[-1]) else hpf[-1]")] },
  -- linearreg_intercept: the two modes are computed separately: sequential = rolling-window regression padded with period-1 NaNs; non-sequential = regression on source[-period
  { name := "linearreg_intercept", file := "linearreg_intercept.py", hasSeq := true, slices := true, fields := [("value", .other "if sequential: ; windows = np.lib.stride_tricks.sliding_window_view(source, window_shape=period) ; means = windows.mean(axis=1) ; slopes = np.dot(windows - m...")] },
  -- lrsi: non-sequential branch returns None instead of NaN when the last element is NaN (`None if np.isnan(E[-1]) else E[-1]`); otherwise E[-1] of the same E
  { name := "lrsi", file := "lrsi.py", hasSeq := true, slices := true, fields := [("value", .other "seq: rsi | nonseq: None if np.isnan(rsi[-1]) else rsi[-1]")] },
  -- midpoint: sequential branch builds a fresh `result` array (period-1 NaNs then midpoints) inside the branch; non-sequential returns midpoints[-1] -- same last el
  { name := "midpoint", file := "midpoint.py", hasSeq := true, slices := true, fields := [("value", .other "if sequential: ; result = np.empty_like(source, dtype=float) ; result[:period - 1] = np.nan ; result[period - 1:] = midpoints ; return result ; else: ; retur...")] },
  -- midprice: the two modes are computed separately inside `if sequential:` / `else:` (each with its own short-input early return): sequential = rolling (max high +
  { name := "midprice", file := "midprice.py", hasSeq := true, slices := true, fields := [("value", .other "if sequential: ; n = len(candles) ; if n < period: ; return np.full(n, np.nan) ; windows_high = sliding_window_view(high, window_shape=period) ; windows_low ..."), ("early@25", .other "return np.full(n, np.nan)"), ("early@39", .other "return np.nan")] },
  -- minmax: documented behaviour: is_min / is_max report the entry order+1 from the end (an extremum needs `order` later candles to be confirmed); last_min / last
  { name := "minmax", file := "minmax.py", hasSeq := true, slices := true, fields := [("is_min", .idx "-(order + 1)"), ("is_max", .idx "-(order + 1)"), ("last_min", .std), ("last_max", .std)] },
  -- natr: final return is standard; early return when len(candles) == period: scalar `result` vs np.concatenate((period-1 NaNs, [result])) -- equivalent to a on
  { name := "natr", file := "natr.py", hasSeq := true, slices := true, fields := [("value", .std), ("early@41", .other "return result if not sequential else np.concatenate((np.full(period - 1, np.nan), [result]))")] },
  -- reflex: non-sequential branch returns None instead of NaN when the last element is NaN (`None if np.isnan(E[-1]) else E[-1]`); otherwise E[-1] of the same E
  { name := "reflex", file := "reflex.py", hasSeq := true, slices := true, fields := [("value", .other "seq: rf | nonseq: None if np.isnan(rf[-1]) else rf[-1]")] },
  -- sar: final return is standard; two early returns ignore `sequential`: n == 0 returns the empty array np.array([]) and n < 2 returns the scalar low[-1] in b
  { name := "sar", file := "sar.py", hasSeq := true, slices := true, fields := [("value", .std), ("early@26", .other "return np.array([])"), ("early@28", .other "return low[-1]")] },
  -- trendflex: non-sequential branch returns None instead of NaN when the last element is NaN (`None if np.isnan(E[-1]) else E[-1]`); otherwise E[-1] of the same E
  { name := "trendflex", file := "trendflex.py", hasSeq := true, slices := true, fields := [("value", .other "seq: tf | nonseq: None if np.isnan(tf[-1]) else tf[-1]")] },
  -- tsf: the two modes are computed separately: sequential = rolling-window regression forecast written into a NaN array; non-sequential = least-squares fit (n
  { name := "tsf", file := "tsf.py", hasSeq := true, slices := true, fields := [("value", .other "if sequential: ; result = np.full_like(source, np.nan) ; if len(source) >= period: ; x = np.arange(period) ; x_mean = np.mean(x) ; x_diff = x - x_mean ; deno...")] },
  -- vwap: non-sequential branch returns None instead of NaN when the last element is NaN (`None if np.isnan(E[-1]) else E[-1]`); otherwise E[-1] of the same E
  { name := "vwap", file := "vwap.py", hasSeq := true, slices := true, fields := [("value", .other "seq: vwap_values | nonseq: None if np.isnan(vwap_values[-1]) else vwap_values[-1]")] }
]

/-- public names without a `sequential` parameter (outside C14) -/
def noSequential : List String := ["hurst_exponent", "ichimoku_cloud", "stiffness", "support_resistance_with_breaks", "ttm_squeeze", "waddah_attar_explosion"]

/-- standard return shape, but `slice_candles(candles, sequential)` is not called (clause 3 of C14 is then only
    examined by the oracle): rsmk: inlines the slice for BOTH inputs: `if not sequential and candles.shape[0] > 240: candles ; squeeze_momentum: never slices: delegates to sma/stddev/trange/linearreg with sequential=True (so they do no; vwmacd: never slices: delegates to vwma(candles, ..., sequential=True) (which therefore does not s -/
def noSlice : List String := ["rsmk", "squeeze_momentum", "vwmacd"]

/-- the table check as a Boolean function (evaluated by the kernel in `C14.table_standard`) -/
def wrapperOk (e : WEntry) : Bool :=
  (e.standard && (e.slices || noSlice.contains e.name)) || exemptWrappers.contains e || (!e.hasSeq && noSequential.contains e.name)

end Jesse.Ind
