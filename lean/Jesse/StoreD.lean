/-
  Jesse/StoreD.lean — `CandlesState.add_candle` (backtest mode) written against the MODEL OF THE REAL ARRAY CLASS
  (`DynArray`, Jesse/DynArray.lean) instead of a plain list: the same calls the Python makes
  (`len(arr)`, `arr[-1]`, `arr.append(candle)`, `arr[-1] = candle`, `arr[-i]`, `arr[-i] = candle`), on rows
  `[timestamp, open, close, high, low, volume]`.  The candle arrays are created without `drop_at`
  (`DynamicNumpyArray((bucket_size, 6))`).  That this is the list algorithm of Jesse/Store.lean on the array's
  logical content is proved in Proofs/C20.lean (`addCandleD_refines`, `batchAddD_refines`), which removes the
  "store = list" composition from the trusted base.
-/
import Jesse.DynArray
import Jesse.Store

namespace Jesse.StoreD
open Jesse

/-- `candle[0]` -/
def ts (r : Row) : Rat := r.headD 0

/-- `for i in range(1, len(arr) + 1): if arr[-i][0] == candle[0]: arr[-i] = candle; break`
    (`fuel` = iterations left, `i` = the loop variable) -/
def replaceLoop (a : DynArray) (r : Row) : Nat → Nat → Except Err DynArray
  | 0, _ => .ok a
  | fuel + 1, i =>
    match a.getItem (-(i : Int)) with
    | .error e => .error e
    | .ok x => if ts x = ts r then a.setItem (-(i : Int)) r else replaceLoop a r fuel (i + 1)

/-- `add_candle` on the array -/
def addCandleD (a : DynArray) (r : Row) : Except Err DynArray :=
  if ts r = 0 then .ok a
  else if a.len = 0 then a.append r
  else match a.getItem (-1) with
    | .error e => .error e
    | .ok last =>
      if ts r > ts last then a.append r
      else if ts r = ts last then a.setItem (-1) r
      else replaceLoop a r a.len.toNat 1

/-- `batch_add_candle` on the array -/
def batchAddD (a : DynArray) : List Row → Except Err DynArray
  | [] => .ok a
  | r :: rs => match addCandleD a r with
    | .error e => .error e
    | .ok a' => batchAddD a' rs

/-- `add_multiple_1m_candles` on the array (`rs` = the rows of `candles`):
    `int(len(candles) - (candles[-1][0] - arr[-1][0]) / 60000)` is taken with `floor`, which is what `int()` gives for
    the whole-minute differences the simulators produce; `arr[-override:] = candles` is a slice assignment without stop -/
def addMultipleD (a : DynArray) (rs : List Row) : Except Err DynArray :=
  match rs.head?, rs.getLast? with
  | some r0, some rl =>
    if a.len = 0 then a.appendMultiple rs
    else match a.getItem (-1) with
      | .error e => .error e
      | .ok last =>
        if ts r0 > ts last then a.appendMultiple rs
        else match a.getItem (-(rs.length : Int)) with
          | .error e => .error e
          | .ok x =>
            if ts r0 ≥ ts x ∧ ts rl ≥ ts last then
              a.setSlice (some (-((rs.length : Int) - ((ts rl - ts last) / 60000).floor))) none rs
            else .error .IndexError
  | _, _ => .error .IndexError

/-- a candle as the row the store holds -/
def enc (c : Candle) : Row := [(c.ts : Rat), c.o, c.c, c.h, c.l, c.v]

end Jesse.StoreD
