/-
  Jesse/Accounts.lean — hand model of the order / position / exchange accounting at operation level
  (jesse/models/Order.py, Position.py, FuturesExchange.py, SpotExchange.py, store/state_orders.py,
  store/state_completed_trades.py), backtest mode.  One exchange, symbols indexed by `Nat`.
  Mirrors the code branch by branch; tied to the real classes by the correspondence check
  (harness/props/c03.py, c04.py, c05.py).  The per-symbol order tables (`buy_orders`/`sell_orders`,
  DynamicNumpyArray in the code) are plain lists of (qty, price) rows (C18).
-/
import Jesse.Basic
import Jesse.Gen.Helpers

namespace Jesse.Acc
open Jesse

inductive Kind where | futures | spot
deriving DecidableEq, Repr, Inhabited

structure Order where
  id : Nat
  sym : Nat
  side : Side
  type : OrderType
  qty : Rat              -- signed: negative for sells (jh.prepare_qty)
  price : Rat
  reduceOnly : Bool
  status : OrderStatus
deriving DecidableEq, Repr, Inhabited

structure Pos where
  qty : Rat := 0
  entry : Option Rat := none
  current : Option Rat := none
  prevQty : Rat := 0
deriving DecidableEq, Repr, Inhabited

/-- one trade record under construction / closed: executed order ids and the buy/sell rows -/
structure Trade where
  type : Option PosType := none
  orders : List Nat := []
  buys : List (Rat × Rat) := []
  sells : List (Rat × Rat) := []
  isOpen : Bool := false
deriving DecidableEq, Repr, Inhabited

structure World where
  kind : Kind
  fee : Rat
  leverage : Rat
  wallet : Rat                          -- assets[settlement currency]
  base : List Rat                       -- spot: assets[base asset] per symbol
  stopSum : List Rat                    -- spot: stop_orders_sum per symbol
  limitSum : List Rat                   -- spot: limit_orders_sum per symbol
  pos : List Pos
  buyRows : List (List (Rat × Rat))     -- futures: buy_orders per symbol
  sellRows : List (List (Rat × Rat))
  orders : List Order                   -- every order ever submitted (id = index)
  active : List (List Nat)              -- store.orders.active_storage per symbol (ids)
  trades : List Trade                   -- closed trades
  temp : List Trade                     -- the trade under construction per symbol
deriving Repr

def init (kind : Kind) (balance fee leverage : Rat) (nsym : Nat) : World :=
  { kind := kind, fee := fee, leverage := leverage, wallet := balance,
    base := List.replicate nsym 0, stopSum := List.replicate nsym 0, limitSum := List.replicate nsym 0,
    pos := List.replicate nsym {}, buyRows := List.replicate nsym [], sellRows := List.replicate nsym [],
    orders := [], active := List.replicate nsym [], trades := [], temp := List.replicate nsym {} }

def getD {α} [Inhabited α] : List α → Nat → α
  | [], _ => default
  | x :: _, 0 => x
  | _ :: xs, n + 1 => getD xs n

def upd {α} : List α → Nat → (α → α) → List α
  | [], _, _ => []
  | x :: xs, 0, f => f x :: xs
  | x :: xs, n + 1, f => x :: upd xs n f

/-! ### position -/

def Pos.type (p : Pos) : PosType := if p.qty > 0 then .long else if p.qty < 0 then .short else .close
def Pos.isOpen (p : Pos) : Bool := p.qty ≠ 0

/-- `Position.pnl` (0 when price/entry unknown or closed) -/
def Pos.pnl (p : Pos) : Rat :=
  match p.entry, p.current with
  | some e, some c =>
    if p.qty = 0 then 0 else
    let diff := absR (c * p.qty) - absR (e * p.qty)
    if p.qty < 0 then -diff else diff
  | _, _ => 0

def rowsSum (rows : List (Rat × Rat)) : Rat := rows.foldl (fun a r => a + r.1 * r.2) 0

/-- erase the first row equal to `(q, p)` (np.where(...)[0][0] / find_order_index + delete) -/
def eraseRow (rows : List (Rat × Rat)) (q p : Rat) : List (Rat × Rat) := rows.erase (q, p)

/-! ### futures exchange -/

/-- `FuturesExchange.available_margin` -/
def availableMargin (w : World) : Rat :=
  let spent := (List.range w.pos.length).foldl (fun acc i =>
    let p := getD w.pos i
    let a1 := if p.isOpen then
        (match p.entry with | some e => e * absR p.qty / w.leverage | none => 0) - p.pnl else 0
    let sb := rowsSum (getD w.buyRows i)
    let ss := rowsSum (getD w.sellRows i)
    acc + a1 + maxR (absR sb / w.leverage) (absR ss / w.leverage)) 0
  w.wallet - spent

/-- `Order.__init__` → `exchange.on_order_submission` (+ `store.orders.add_order`).
    Returns the error kind and the state the real objects are left in when the submission raises. -/
def submit (w : World) (sym : Nat) (side : Side) (type : OrderType) (qtyAbs price : Rat) (ro : Bool) :
    Except (Err × World) World :=
  let qty := if side = .sell then -(absR qtyAbs) else absR qtyAbs
  let o : Order := ⟨w.orders.length, sym, side, type, qty, price, ro, .active⟩
  let register (w' : World) : World :=
    { w' with orders := w'.orders ++ [o], active := upd w'.active sym (· ++ [o.id]) }
  match w.kind with
  | .futures =>
    if ¬ ro ∧ absR (qty * price) / w.leverage > availableMargin w then .error (.InsufficientMargin, w)
    else
      let w1 := if ro then w else
        (if side = .buy then { w with buyRows := upd w.buyRows sym (· ++ [(qty, price)]) }
         else { w with sellRows := upd w.sellRows sym (· ++ [(qty, price)]) })
      .ok (register w1)
  | .spot =>
    let w1 := if side = .sell then
        (if type = .stop then { w with stopSum := upd w.stopSum sym (· + absR qty) }
         else if type = .limit then { w with limitSum := upd w.limitSum sym (· + absR qty) } else w)
      else w
    if side = .buy then
      let w2 := { w1 with wallet := w1.wallet - absR qty * price }
      if w2.wallet < 0 then .error (.InsufficientBalance, w2) else .ok (register w2)
    else
      let oq := match type with
        | .market => absR qty + getD w1.limitSum sym
        | .stop => getD w1.stopSum sym
        | .limit => getD w1.limitSum sym
      if oq > getD w1.base sym then .error (.InsufficientBalance, w1) else .ok (register w1)

/-- `store.completed_trades.add_executed_order` -/
def addExecutedOrder (w : World) (o : Order) : World :=
  { w with temp := upd w.temp o.sym (fun t =>
      let t1 := { t with orders := t.orders ++ [o.id] }
      if o.side = .buy then { t1 with buys := t1.buys ++ [(absR o.qty, o.price)] }
      else { t1 with sells := t1.sells ++ [(absR o.qty, o.price)] }) }

/-- `open_trade` -/
def openTrade (w : World) (sym : Nat) : World :=
  { w with temp := upd w.temp sym (fun t => { t with type := some (getD w.pos sym).type, isOpen := true }) }

/-- `close_trade` (ignored when the trade is not open yet) -/
def closeTrade (w : World) (sym : Nat) : World :=
  let t := getD w.temp sym
  if ¬ t.isOpen then w
  else { w with trades := w.trades ++ [t], temp := upd w.temp sym (fun _ => {}) }

/-- `Position._update_qty` -/
def updateQty (w : World) (sym : Nat) (q : Rat) (op : Nat) : World :=   -- op: 0 set, 1 add, 2 subtract
  { w with pos := upd w.pos sym (fun p =>
      let nq := match w.kind, op with
        | .spot, 0 => q * (1 - w.fee)
        | .spot, 1 => p.qty + q * (1 - w.fee)
        | .spot, _ => p.qty - q
        | .futures, 0 => q
        | .futures, 1 => p.qty + q
        | .futures, _ => p.qty - q
      { p with prevQty := p.qty, qty := nq }) }

def addRealized (w : World) (pnl : Rat) : World := { w with wallet := w.wallet + pnl }

/-- `_mutating_close` -/
def mutClose (w : World) (sym : Nat) (price : Rat) : World :=
  let p := getD w.pos sym
  let w1 := match w.kind, p.entry with
    | .futures, some e => addRealized w (Jesse.Gen.estimatePNL (absR p.qty) e price p.type 0)
    | _, _ => w
  let w2 := updateQty w1 sym 0 0
  let w3 := { w2 with pos := upd w2.pos sym (fun p => { p with entry := none }) }
  closeTrade w3 sym

/-- `_mutating_reduce` -/
def mutReduce (w : World) (sym : Nat) (qty price : Rat) : World :=
  let p := getD w.pos sym
  let q := absR qty
  let w1 := match w.kind, p.entry with
    | .futures, some e => addRealized w (Jesse.Gen.estimatePNL q e price p.type 0)
    | _, _ => w
  if p.type = .long then updateQty w1 sym q 2
  else if p.type = .short then updateQty w1 sym q 1
  else w1

/-- `_mutating_increase` -/
def mutIncrease (w : World) (sym : Nat) (qty price : Rat) : World :=
  let p := getD w.pos sym
  let q := absR qty
  let e' := match p.entry with
    | some e => some (Jesse.Gen.estimateAveragePrice q price p.qty e)
    | none => none
  let w1 := { w with pos := upd w.pos sym (fun p => { p with entry := e' }) }
  if p.type = .long then updateQty w1 sym q 1
  else if p.type = .short then updateQty w1 sym q 2
  else w1

/-- `_mutating_open` -/
def mutOpen (w : World) (sym : Nat) (qty price : Rat) : World :=
  let w1 := { w with pos := upd w.pos sym (fun p => { p with entry := some price }) }
  let w2 := updateQty w1 sym qty 0
  openTrade w2 sym

/-- `exchange.charge_fee(qty * price)` (futures only) -/
def chargeFee (w : World) (o : Order) : World :=
  match w.kind with
  | .futures => { w with wallet := w.wallet - absR (o.qty * o.price) * w.fee }
  | .spot => w

/-- the branch structure of `Position._on_executed_order` (backtest branch) -/
def onExecutedCore (w0 : World) (o : Order) : World :=
  if (getD w0.pos o.sym).qty = 0 then mutOpen w0 o.sym o.qty o.price
  else if (getD w0.pos o.sym).qty + o.qty = 0 then mutClose w0 o.sym o.price
  else if (getD w0.pos o.sym).qty * o.qty > 0 then
    (if o.reduceOnly then w0 else mutIncrease w0 o.sym o.qty o.price)
  else if (getD w0.pos o.sym).qty * o.qty < 0 then
    (if absR o.qty > absR (getD w0.pos o.sym).qty then
      (if o.reduceOnly then mutClose w0 o.sym o.price
       else mutOpen (mutClose w0 o.sym o.price) o.sym ((getD w0.pos o.sym).qty + o.qty) o.price)
     else mutReduce w0 o.sym o.qty o.price)
  else w0

/-- `Position._on_executed_order` (backtest branch) -/
def onExecuted (w : World) (o : Order) : World := onExecutedCore (chargeFee w o) o

/-- spot: how much of a sell is actually sold (the code clips it to the base balance) -/
def soldQty (w : World) (o : Order) : Rat :=
  if absR o.qty > getD w.base o.sym then absR (getD w.base o.sym) else absR o.qty

/-- spot: bookkeeping of the resting-sells sums when a sell leaves the book (fill or cancel) -/
def releaseSell (w : World) (o : Order) : World :=
  if o.side = .sell then
    (if o.type = .stop then { w with stopSum := upd w.stopSum o.sym (· - absR o.qty) }
     else if o.type = .limit then { w with limitSum := upd w.limitSum o.sym (· - absR o.qty) } else w)
  else w

/-- `exchange.on_order_execution` -/
def exchangeOnExecution (w : World) (o : Order) : World :=
  match w.kind with
  | .futures =>
    if o.reduceOnly then w
    else if o.side = .buy then { w with buyRows := upd w.buyRows o.sym (eraseRow · o.qty o.price) }
    else { w with sellRows := upd w.sellRows o.sym (eraseRow · o.qty o.price) }
  | .spot =>
    if o.side = .buy then
      { releaseSell w o with base := upd (releaseSell w o).base o.sym (· + absR o.qty * (1 - w.fee)) }
    else
      { releaseSell w o with
          wallet := (releaseSell w o).wallet + soldQty (releaseSell w o) o * o.price * (1 - w.fee),
          base := upd (releaseSell w o).base o.sym (· - soldQty (releaseSell w o) o) }

def setStatus (w : World) (id : Nat) (s : OrderStatus) : World :=
  { w with orders := upd w.orders id (fun o => { o with status := s }) }

/-- `Order.execute` -/
def execute (w : World) (id : Nat) : World :=
  match w.orders[id]? with
  | none => w
  | some o =>
    if o.status ≠ .active then w          -- already final: no effect
    else
      let w1 := setStatus w id .executed
      let w2 := addExecutedOrder w1 o
      let w3 := exchangeOnExecution w2 o
      onExecuted w3 o

/-- `Order.cancel` -/
def cancel (w : World) (id : Nat) : World :=
  match w.orders[id]? with
  | none => w
  | some o =>
    if o.status ≠ .active then w
    else
      let w1 := setStatus w id .canceled
      match w.kind with
      | .futures =>
        if o.reduceOnly then w1
        else if o.side = .buy then { w1 with buyRows := upd w1.buyRows o.sym (eraseRow · o.qty o.price) }
        else { w1 with sellRows := upd w1.sellRows o.sym (eraseRow · o.qty o.price) }
      | .spot =>
        if o.side = .buy then { releaseSell w1 o with wallet := (releaseSell w1 o).wallet + absR o.qty * o.price }
        else releaseSell w1 o

/-- `store.orders.update_active_orders` -/
def updateActive (w : World) (sym : Nat) : World :=
  { w with active := upd w.active sym (fun ids =>
      ids.filter (fun id => match w.orders[id]? with | some o => o.status = .active | none => false)) }

/-- `Sandbox.cancel_all_orders` (production branch: also clears `store.orders.storage[key]`, which the
    model does not keep separately) -/
def cancelAll (w : World) (sym : Nat) : World :=
  (getD w.active sym).foldl (fun w id => cancel w id) w

def setPrice (w : World) (sym : Nat) (p : Rat) : World :=
  { w with pos := upd w.pos sym (fun q => { q with current := some p }) }

end Jesse.Acc
