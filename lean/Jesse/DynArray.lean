/-
  Jesse/DynArray.lean — hand model of `jesse.libs.DynamicNumpyArray` (jesse/libs/dynamic_numpy_array),
  mirroring the code method by method: same index arithmetic, same growth / re-pad / drop rules,
  NumPy semantics for the raw reads and writes on the backing array (Jesse/Py.lean).
  Tied to the real class by the correspondence check (harness/props/c18.py).
-/
import Jesse.Basic
import Jesse.Py

namespace Jesse

abbrev Row := List Rat

def zeroRow (w : Nat) : Row := List.replicate w 0
def zeros (n w : Nat) : List Row := List.replicate n (zeroRow w)

structure DynArray where
  index : Int
  array : List Row
  bucket : Nat          -- shape[0]
  width : Nat           -- shape[1]
  dropAt : Option Nat
deriving Repr

namespace DynArray

def new (bucket width : Nat) (dropAt : Option Nat) : DynArray :=
  ⟨-1, zeros bucket width, bucket, width, dropAt⟩

/-- `__len__` -/
def len (a : DynArray) : Int := a.index + 1

/-- resolve a possibly negative integer index against the logical length (`(index+1) - abs(i)`) -/
def resolve (a : DynArray) (i : Int) : Int := if i < 0 then (a.index + 1) + i else i

/-- `__getitem__` with an integer -/
def getItem (a : DynArray) (i : Int) : Except Err Row :=
  let i' := a.resolve i
  if a.index = -1 ∨ i' > a.index ∨ i' < 0 then .error .IndexError
  else match Py.getIdx a.array i' with
    | some r => .ok r
    | none => .error .IndexError

/-- bounds of `__getitem__` with a slice, after normalisation -/
def sliceBounds (a : DynArray) (start stop : Option Int) : Int × Int :=
  let start0 := start.getD 0
  let stop0 := stop.getD (a.index + 1)
  let start1 := if start0 < 0 then max ((a.index + 1) + start0) 0 else start0
  let stop1 := if stop0 < 0 then max ((a.index + 1) + stop0) 0 else stop0
  let stop2 := min stop1 (a.index + 1)
  (start1, stop2)

/-- `__getitem__` with a slice -/
def getSlice (a : DynArray) (start stop : Option Int) : List Row :=
  let b := a.sliceBounds start stop
  Py.slice a.array (some b.1) (some b.2)

/-- `__setitem__` with an integer -/
def setItem (a : DynArray) (i : Int) (r : Row) : Except Err DynArray :=
  let i' := a.resolve i
  if i' > a.index ∨ i' < 0 then .error .IndexError
  else match Py.normIdx a.array.length i' with
    | some k => .ok { a with array := a.array.set k r }
    | none => .error .IndexError

/-- NumPy `array[s:e] = items` on the backing array: equal length, or a single row broadcast -/
def npAssign (xs : List Row) (s e : Int) (items : List Row) : Option (List Row) :=
  let n := (Py.slice xs (some s) (some e)).length
  if items.length = n then Py.setSlice xs (some s) (some e) items
  else if items.length = 1 then Py.setSlice xs (some s) (some e) (List.replicate n items.head!)
  else none

/-- `__setitem__` with a slice -/
def setSlice (a : DynArray) (start stop : Option Int) (items : List Row) : Except Err DynArray :=
  let start0 := start.getD 0
  let start1 := if start0 < 0 then max ((a.index + 1) + start0) 0 else start0
  let stop2 := match stop with
    | none => start1 + items.length
    | some s => min (if s < 0 then max ((a.index + 1) + s) 0 else s) (a.index + 1)
  match npAssign a.array start1 stop2 items with
  | some arr => .ok { a with array := arr }
  | none => .error .ValueError

/-- the drop-oldest step shared by `append` and `append_multiple` -/
def dropStep (a : DynArray) (index1 : Int) (array1 : List Row) : Int × List Row :=
  match a.dropAt with
  | some d =>
    if index1 ≠ 0 ∧ (index1 + 1) % (d : Int) = 0 then
      (index1 - ((d / 2 : Nat) : Int), Py.shiftLeft array1 (d / 2) (zeroRow a.width))
    else (index1, array1)
  | none => (index1, array1)

/-- the growth step shared by `append` and `append_multiple`: add `extra` zero rows when the array
    is about to be full -/
def grow (a : DynArray) (index1 : Int) (extra : Nat) : List Row :=
  if index1 ≠ 0 ∧ index1 + 1 ≥ a.array.length then a.array ++ zeros extra a.width else a.array

/-- `self.array[self.index] = item` (NumPy integer indexing on the backing array) -/
def writeRow (a : DynArray) (index2 : Int) (array2 : List Row) (r : Row) : Except Err DynArray :=
  match Py.normIdx array2.length index2 with
  | some k => .ok { a with index := index2, array := array2.set k r }
  | none => .error .IndexError

/-- `append` -/
def append (a : DynArray) (r : Row) : Except Err DynArray :=
  let p := a.dropStep (a.index + 1) (a.grow (a.index + 1) a.bucket)
  a.writeRow p.1 p.2 r

/-- `append_multiple`: grow, write the rows at `[index-n+1 : index+1]`, then the drop-oldest step -/
def appendMultiple (a : DynArray) (items : List Row) : Except Err DynArray :=
  match npAssign (a.grow (a.index + items.length) (max items.length a.bucket))
      (a.index + items.length - items.length + 1) (a.index + items.length + 1) items with
  | none => .error .ValueError
  | some arr =>
    let p := a.dropStep (a.index + items.length) arr
    .ok { a with index := p.1, array := p.2 }

/-- `delete(index, axis=0)` -/
def delete (a : DynArray) (i : Int) : Except Err DynArray :=
  let i' := a.resolve i
  if i' > a.index ∨ i' < 0 then .error .IndexError
  else match Py.npDelete a.array i' with
    | none => .error .IndexError
    | some arr =>
      let arr' := if arr.length ≤ a.bucket then arr ++ zeros a.bucket a.width else arr
      .ok { a with index := a.index - 1, array := arr' }

/-- `flush` -/
def flush (a : DynArray) : DynArray := { a with index := -1, array := zeros a.bucket a.width }

/-- `get_last_item` -/
def getLast (a : DynArray) : Except Err Row :=
  if a.index = -1 then .error .IndexError
  else match Py.getIdx a.array a.index with
    | some r => .ok r
    | none => .error .IndexError

/-- `get_past_item(k)` -/
def getPast (a : DynArray) (k : Int) : Except Err Row :=
  if a.index = -1 then .error .IndexError
  else if a.index - k < 0 then .error .IndexError
  else match Py.getIdx a.array (a.index - k) with
    | some r => .ok r
    | none => .error .IndexError

/-- the logical content: the first `index+1` rows of the backing array -/
def abs (a : DynArray) : List Row := a.array.take (a.index + 1).toNat

end DynArray
end Jesse
