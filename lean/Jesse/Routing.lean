/-
  Jesse/Routing.lean — hand-written glue between the GENERATED decision of
  `Strategy._submit_buy_orders/_submit_sell_orders` (which broker method is called) and the GENERATED
  broker methods (which exchange-API order results): the dispatch `self.broker.<method>(…)`.
  `price` is what the strategy compares with (`self.price`), `cur` is `position.current_price`
  (what a market order is priced at).
-/
import Jesse.Gen.Routing

namespace Jesse.Routing
open Jesse Jesse.Gen

def dispatch (b : BrokerCall) (cur : Rat) : Except Err ApiCall :=
  match b with
  | .buyAtMarket q => buyAtMarket q cur
  | .sellAtMarket q => sellAtMarket q cur
  | .buyAt q p => buyAt q p
  | .sellAt q p => sellAt q p
  | .startProfitAt s q p => startProfitAt s q p cur

/-- one row `(q, p)` of `self.buy` -/
def entryBuy (q p price cur : Rat) : Except Err ApiCall :=
  match submitBuyDecision q p price with
  | .error e => .error e
  | .ok b => dispatch b cur

/-- one row `(q, p)` of `self.sell` -/
def entrySell (q p price cur : Rat) : Except Err ApiCall :=
  match submitSellDecision q p price with
  | .error e => .error e
  | .ok b => dispatch b cur

end Jesse.Routing
