/-
  Jesse/Metrics.lean — executable model of `jesse/services/metrics.py::trades`, of the daily-return
  helpers it calls (`pct_change`, `max_drawdown`, the rational building blocks of Sharpe / Sortino /
  Omega / CAGR), of the sampling rule of `save_daily_portfolio_balance` inside both simulators
  (`jesse/modes/backtest_mode.py`), and of the value one sample records
  (`jesse/modes/utils.py::save_daily_portfolio_balance` + `Strategy.portfolio_value`).
  Core Lean only; all numbers are `Rat`; NaN is `none`.

  The model MIRRORS the code (defects included): same filters, same zero guards, the streak
  computation written with the NumPy primitives the code uses (clip / astype(bool) / cumsum /
  maximum.accumulate / where), `pct_change` with its NaN first row, `max_drawdown` with `fillna(0)`
  and pandas' `cumprod` / `expanding().max()` / `min`.

  Left out (need `sqrt` / real powers): the final `sqrt` of Sharpe and Sortino, the power in `cagr`
  (hence Calmar), `serenity_index`, `autocorr_penalty` (only used with `smart=True`, never by
  `trades`).  Their rational ingredients (mean, sample variance, downside mean square, growth factor,
  year fraction, Omega) are modelled below; the full ratios are recomputed by the harness oracle.
-/
import Jesse.Basic

namespace Jesse.Metrics

/-! ## trade records (what `metrics.trades` reads from `ClosedTrade.to_dict`) -/

/-- `jesse.enums.trade_types`: a closed trade is `'long'` or `'short'` -/
inductive TradeType where | long | short
deriving DecidableEq, Repr, Inhabited

/-- the four columns of the DataFrame that `trades` reads: `PNL`, `type`, `fee`, `holding_period` -/
structure Trade where
  pnl : Rat
  type : TradeType
  fee : Rat
  holding : Rat
deriving Repr, Inhabited

/-! ## column helpers (pandas `Series.sum/mean/max/min` on a column without NaN) -/

/-- `Series.sum()` (empty sum is 0) -/
def sumR : List Rat → Rat
  | [] => 0
  | x :: xs => x + sumR xs

/-- `Series.mean()`; NaN (`none`) on an empty selection -/
def meanR (l : List Rat) : Option Rat :=
  if l.isEmpty then none else some (sumR l / (l.length : Rat))

def maxFromR (m : Rat) : List Rat → Rat
  | [] => m
  | x :: xs => maxFromR (maxR m x) xs

def minFromR (m : Rat) : List Rat → Rat
  | [] => m
  | x :: xs => minFromR (minR m x) xs

/-- `Series.max()`; NaN on an empty selection -/
def colMax : List Rat → Option Rat
  | [] => none
  | x :: xs => some (maxFromR x xs)

/-- `Series.min()`; NaN on an empty selection -/
def colMin : List Rat → Option Rat
  | [] => none
  | x :: xs => some (minFromR x xs)

def pnls (ts : List Trade) : List Rat := ts.map (·.pnl)
def fees (ts : List Trade) : List Rat := ts.map (·.fee)
def holdings (ts : List Trade) : List Rat := ts.map (·.holding)

/-- `df.loc[df['PNL'] > 0]` -/
def winners (ts : List Trade) : List Trade := ts.filter (fun t => decide (0 < t.pnl))
/-- `df.loc[df['PNL'] < 0]` -/
def losers (ts : List Trade) : List Trade := ts.filter (fun t => decide (t.pnl < 0))
/-- zero-PnL trades: counted by `total` only (no column of their own in the code) -/
def breakEven (ts : List Trade) : List Trade := ts.filter (fun t => decide (t.pnl = 0))
/-- `df.loc[df['type'] == 'long']` -/
def longs (ts : List Trade) : List Trade := ts.filter (fun t => decide (t.type = .long))
/-- `df.loc[df['type'] == 'short']` -/
def shorts (ts : List Trade) : List Trade := ts.filter (fun t => decide (t.type = .short))

/-! ## the streak computation, with NumPy's primitives -/

/-- `np.clip(x, lo, hi)` = `minimum(maximum(x, lo), hi)` -/
def npClip (lo hi x : Rat) : Rat := minR (maxR x lo) hi
/-- `.astype(bool)`: non-zero is True -/
def astypeBool (x : Rat) : Bool := decide (x ≠ 0)
/-- a bool inside an integer `cumsum` -/
def b2i (b : Bool) : Int := if b then 1 else 0

def cumsumFrom (a : Int) : List Int → List Int
  | [] => []
  | x :: xs => (a + x) :: cumsumFrom (a + x) xs
/-- `ndarray.cumsum()` -/
def cumsum (l : List Int) : List Int := cumsumFrom 0 l

def maxAccFrom (m : Int) : List Int → List Int
  | [] => []
  | x :: xs => max m x :: maxAccFrom (max m x) xs
/-- `np.maximum.accumulate` (the first element is itself) -/
def maxAcc : List Int → List Int
  | [] => []
  | x :: xs => x :: maxAccFrom x xs

/-- `np.where(cond, a, b)` on equal-length arrays -/
def npWhere : List Bool → List Int → List Int → List Int
  | c :: cs, a :: as, b :: bs => (if c then a else b) :: npWhere cs as bs
  | _, _, _ => []

/-- the scalar `0` broadcast to the shape of `arr` -/
def zerosLike (arr : List Rat) : List Int := arr.map (fun _ => 0)
def subL (a b : List Int) : List Int := List.zipWith (· - ·) a b
def addL (a b : List Int) : List Int := List.zipWith (· + ·) a b
def negL (a : List Int) : List Int := a.map (fun x => -x)

def posFlags (arr : List Rat) : List Int := arr.map (fun x => b2i (astypeBool (npClip 0 1 x)))
def negFlags (arr : List Rat) : List Int := arr.map (fun x => b2i (astypeBool (npClip (-1) 0 x)))
def geZero (arr : List Rat) : List Bool := arr.map (fun x => decide (0 ≤ x))
def leZero (arr : List Rat) : List Bool := arr.map (fun x => decide (x ≤ 0))

/-- `pos = np.clip(arr, 0, 1).astype(bool).cumsum()` -/
def posCum (arr : List Rat) : List Int := cumsum (posFlags arr)
/-- `neg = np.clip(arr, -1, 0).astype(bool).cumsum()` -/
def negCum (arr : List Rat) : List Int := cumsum (negFlags arr)

/-- `current_streak = np.where(arr >= 0, pos - np.maximum.accumulate(np.where(arr <= 0, pos, 0)),
                               -neg + np.maximum.accumulate(np.where(arr >= 0, neg, 0)))` -/
def currentStreakArr (arr : List Rat) : List Int :=
  npWhere (geZero arr)
    (subL (posCum arr) (maxAcc (npWhere (leZero arr) (posCum arr) (zerosLike arr))))
    (addL (negL (negCum arr)) (maxAcc (npWhere (geZero arr) (negCum arr) (zerosLike arr))))

def maxFromI (m : Int) : List Int → Int
  | [] => m
  | x :: xs => maxFromI (max m x) xs
def minFromI (m : Int) : List Int → Int
  | [] => m
  | x :: xs => minFromI (min m x) xs
/-- `ndarray.max()`; the empty case is unreachable in `trades` (early return), modelled as 0 -/
def arrMax : List Int → Int
  | [] => 0
  | x :: xs => maxFromI x xs
/-- `ndarray.min()` -/
def arrMin : List Int → Int
  | [] => 0
  | x :: xs => minFromI x xs
/-- `current_streak[-1]` -/
def arrLast : List Int → Int
  | [] => 0
  | [x] => x
  | _ :: y :: ys => arrLast (y :: ys)

/-- `winning_streak = max(s_max, 0)` -/
def winningStreak (arr : List Rat) : Int := max (arrMax (currentStreakArr arr)) 0
/-- `losing_streak = 0 if s_min > 0 else abs(s_min)` -/
def losingStreak (arr : List Rat) : Int :=
  if 0 < arrMin (currentStreakArr arr) then 0 else ((arrMin (currentStreakArr arr)).natAbs : Int)
/-- `current_streak[-1]` -/
def currentStreak (arr : List Rat) : Int := arrLast (currentStreakArr arr)

/-! ## the scalar metrics of `trades` -/

def total (ts : List Trade) : Nat := ts.length
def totalWinning (ts : List Trade) : Nat := (winners ts).length
def totalLosing (ts : List Trade) : Nat := (losers ts).length

/-- `0 if len(winning_trades) == 0 else len(winning) / (len(losing) + len(winning))` -/
def winRate (ts : List Trade) : Rat :=
  if (winners ts).length = 0 then 0
  else ((winners ts).length : Rat) / (((losers ts).length : Rat) + ((winners ts).length : Rat))

def longsCount (ts : List Trade) : Nat := (longs ts).length
def shortsCount (ts : List Trade) : Nat := (shorts ts).length
/-- `longs_count / (longs_count + shorts_count) * 100` -/
def longsPercentage (ts : List Trade) : Rat :=
  (longsCount ts : Rat) / ((longsCount ts : Rat) + (shortsCount ts : Rat)) * 100
/-- `100 - longs_percentage` -/
def shortsPercentage (ts : List Trade) : Rat := 100 - longsPercentage ts

def fee (ts : List Trade) : Rat := sumR (fees ts)
def netProfit (ts : List Trade) : Rat := sumR (pnls ts)
/-- `(net_profit / starting_balance) * 100` -/
def netProfitPercentage (sb : Rat) (ts : List Trade) : Rat := netProfit ts / sb * 100
def grossProfit (ts : List Trade) : Rat := sumR (pnls (winners ts))
def grossLoss (ts : List Trade) : Rat := sumR (pnls (losers ts))

/-- `winning_trades['PNL'].mean()` (NaN without winners) -/
def averageWin (ts : List Trade) : Option Rat := meanR (pnls (winners ts))
/-- `abs(losing_trades['PNL'].mean())` (NaN without losers) -/
def averageLoss (ts : List Trade) : Option Rat := (meanR (pnls (losers ts))).map absR
/-- `average_win / average_loss` (NaN if either is) -/
def ratioAvgWinLoss (ts : List Trade) : Option Rat :=
  match averageWin ts, averageLoss ts with
  | some w, some l => some (w / l)
  | _, _ => none

/-- `(0 if isnan(average_win) else average_win) * win_rate
     - (0 if isnan(average_loss) else average_loss) * (1 - win_rate)` -/
def expectancy (ts : List Trade) : Rat :=
  (averageWin ts).getD 0 * winRate ts - (averageLoss ts).getD 0 * (1 - winRate ts)
def expectancyPercentage (sb : Rat) (ts : List Trade) : Rat := expectancy ts / sb * 100
def expectedNetProfitEvery100 (sb : Rat) (ts : List Trade) : Rat := expectancyPercentage sb ts * 100

/-- `0 if total_winning_trades == 0 else winning_trades['PNL'].max()` -/
def largestWinningTrade (ts : List Trade) : Rat :=
  if totalWinning ts = 0 then 0 else (colMax (pnls (winners ts))).getD 0
/-- `0 if total_losing_trades == 0 else losing_trades['PNL'].min()` -/
def largestLosingTrade (ts : List Trade) : Rat :=
  if totalLosing ts = 0 then 0 else (colMin (pnls (losers ts))).getD 0

def averageHoldingPeriod (ts : List Trade) : Option Rat := meanR (holdings ts)
def averageWinningHoldingPeriod (ts : List Trade) : Option Rat := meanR (holdings (winners ts))
def averageLosingHoldingPeriod (ts : List Trade) : Option Rat := meanR (holdings (losers ts))

/-- everything `trades` returns that depends on the trade list (the non-empty branch) -/
structure Report where
  total : Nat
  totalWinning : Nat
  totalLosing : Nat
  winRate : Rat
  ratioAvgWinLoss : Option Rat
  longsCount : Nat
  longsPercentage : Rat
  shortsPercentage : Rat
  shortsCount : Nat
  fee : Rat
  netProfit : Rat
  netProfitPercentage : Rat
  averageWin : Option Rat
  averageLoss : Option Rat
  expectancy : Rat
  expectancyPercentage : Rat
  expectedNetProfitEvery100 : Rat
  averageHoldingPeriod : Option Rat
  averageWinningHoldingPeriod : Option Rat
  averageLosingHoldingPeriod : Option Rat
  grossProfit : Rat
  grossLoss : Rat
  winningStreak : Int
  losingStreak : Int
  largestLosingTrade : Rat
  largestWinningTrade : Rat
  currentStreak : Int

def report (sb : Rat) (ts : List Trade) : Report where
  total := total ts
  totalWinning := totalWinning ts
  totalLosing := totalLosing ts
  winRate := winRate ts
  ratioAvgWinLoss := ratioAvgWinLoss ts
  longsCount := longsCount ts
  longsPercentage := longsPercentage ts
  shortsPercentage := shortsPercentage ts
  shortsCount := shortsCount ts
  fee := fee ts
  netProfit := netProfit ts
  netProfitPercentage := netProfitPercentage sb ts
  averageWin := averageWin ts
  averageLoss := averageLoss ts
  expectancy := expectancy ts
  expectancyPercentage := expectancyPercentage sb ts
  expectedNetProfitEvery100 := expectedNetProfitEvery100 sb ts
  averageHoldingPeriod := averageHoldingPeriod ts
  averageWinningHoldingPeriod := averageWinningHoldingPeriod ts
  averageLosingHoldingPeriod := averageLosingHoldingPeriod ts
  grossProfit := grossProfit ts
  grossLoss := grossLoss ts
  winningStreak := winningStreak (pnls ts)
  losingStreak := losingStreak (pnls ts)
  largestLosingTrade := largestLosingTrade ts
  largestWinningTrade := largestWinningTrade ts
  currentStreak := currentStreak (pnls ts)

/-- `trades(trades_list, …)`: `none` is the early return
    `{'total': 0, 'win_rate': 0, 'net_profit_percentage': 0}` for an empty list -/
def trades (sb : Rat) (ts : List Trade) : Option Report :=
  if ts.isEmpty then none else some (report sb ts)

/-! ## daily returns and the ratio helpers -/

def pctTail (prev : Rat) : List Rat → List (Option Rat)
  | [] => []
  | x :: xs => some (x / prev - 1) :: pctTail x xs

/-- `pd.DataFrame(daily_balance).pct_change(1)`: the first row is NaN -/
def pctChange : List Rat → List (Option Rat)
  | [] => []
  | b :: bs => none :: pctTail b bs

/-- `(returns + 1).cumprod()` — pandas skips NaN rows (they stay NaN, the product carries on) -/
def cumprodSkip (acc : Rat) : List (Option Rat) → List (Option Rat)
  | [] => []
  | none :: xs => none :: cumprodSkip acc xs
  | some r :: xs => some (acc * (r + 1)) :: cumprodSkip (acc * (r + 1)) xs

/-- `prices.expanding(min_periods=0).max()`: the maximum of the non-NaN values so far
    (NaN while there is none) -/
def expandingMaxSkip (cur : Option Rat) : List (Option Rat) → List (Option Rat)
  | [] => []
  | none :: xs => cur :: expandingMaxSkip cur xs
  | some p :: xs =>
      (match cur with | none => some p | some c => some (maxR c p))
        :: expandingMaxSkip (match cur with | none => some p | some c => some (maxR c p)) xs

/-- element-wise `a / b` with NaN propagation -/
def divSkip : List (Option Rat) → List (Option Rat) → List (Option Rat)
  | a :: as, b :: bs =>
      (match a, b with | some x, some y => some (x / y) | _, _ => none) :: divSkip as bs
  | _, _ => []

/-- `Series.min()` skipping NaN; NaN if every row is -/
def minSkip : List (Option Rat) → Option Rat
  | [] => none
  | none :: xs => minSkip xs
  | some x :: xs => match minSkip xs with
      | none => some x
      | some m => some (minR x m)

/-- `returns.fillna(0)`: a NaN row counts as a 0 % day -/
def fillna0 : List (Option Rat) → List (Option Rat)
  | [] => []
  | none :: xs => some 0 :: fillna0 xs
  | some r :: xs => some r :: fillna0 xs

/-- `prices = (returns.fillna(0) + 1).cumprod()` -/
def ddPrices (returns : List (Option Rat)) : List (Option Rat) := cumprodSkip 1 (fillna0 returns)

/-- `max_drawdown(returns)`: `(prices / prices.expanding(min_periods=0).max()).min() - 1` -/
def maxDrawdown (returns : List (Option Rat)) : Option Rat :=
  (minSkip (divSkip (ddPrices returns) (expandingMaxSkip none (ddPrices returns)))).map (· - 1)

/-- element-wise `x - 1` with NaN propagation -/
def subOneSkip (l : List (Option Rat)) : List (Option Rat) := l.map (fun o => o.map (· - 1))

/-- the drawdown inside `calmar_ratio`:
    `cum = (1 + returns.fillna(0)).cumprod(); drawdown = cum / cum.expanding(min_periods=1).max() - 1;
     max_dd = abs(drawdown.min())` -/
def calmarDrawdown (returns : List (Option Rat)) : Option Rat :=
  (minSkip (subOneSkip (divSkip (ddPrices returns) (expandingMaxSkip none (ddPrices returns))))).map absR

/-- `max_dd = nan if len(daily_return) < 2 else max_drawdown(daily_return) * 100` -/
def maxDrawdownPct (balances : List Rat) : Option Rat :=
  if balances.length < 2 then none else (maxDrawdown (pctChange balances)).map (· * 100)

/-- the non-NaN rows -/
def validReturns : List (Option Rat) → List Rat
  | [] => []
  | none :: xs => validReturns xs
  | some r :: xs => r :: validReturns xs

/-- `returns.mean()` (skipna) -/
def retMean (returns : List (Option Rat)) : Option Rat := meanR (validReturns returns)

def sqDevSum (m : Rat) : List Rat → Rat
  | [] => 0
  | x :: xs => (x - m) * (x - m) + sqDevSum m xs

/-- `returns.std(ddof=1) ** 2` (skipna; NaN with fewer than two valid rows) -/
def retVar (returns : List (Option Rat)) : Option Rat :=
  if (validReturns returns).length < 2 then none
  else some (sqDevSum (sumR (validReturns returns) / ((validReturns returns).length : Rat)) (validReturns returns)
             / (((validReturns returns).length : Rat) - 1))

/-- `(returns[returns < 0] ** 2).sum()` -/
def negSqSum : List Rat → Rat
  | [] => 0
  | x :: xs => (if x < 0 then x * x else 0) + negSqSum xs

/-- the square of `downside` in `sortino_ratio`:
    `(returns[returns < 0] ** 2).sum() / returns.count()` — `count` is the number of non-NaN rows -/
def downsideSq (returns : List (Option Rat)) : Rat :=
  negSqSum (validReturns returns) / ((validReturns returns).length : Rat)

def posSum : List Rat → Rat
  | [] => 0
  | x :: xs => (if 0 < x then x else 0) + posSum xs
def negSum : List Rat → Rat
  | [] => 0
  | x :: xs => (if x < 0 then x else 0) + negSum xs

/-- `omega_ratio(returns, periods=365)` with `required_return = 0`: threshold `(1+0)**(1/365) - 1 = 0`;
    `numer / denom if denom > 0 else nan` -/
def omega (returns : List (Option Rat)) : Option Rat :=
  if 0 < -1 * negSum (validReturns returns)
  then some (posSum (validReturns returns) / (-1 * negSum (validReturns returns)))
  else none

def prodPlusOne : List Rat → Rat
  | [] => 1
  | x :: xs => (1 + x) * prodPlusOne xs

/-- `last_value = (1 + returns).prod()` of `cagr` / `calmar_ratio` (skipna) -/
def growth (returns : List (Option Rat)) : Rat := prodPlusOne (validReturns returns)

/-- `years = (returns.index[-1] - returns.index[0]).days / 365` on a daily index -/
def years (returns : List (Option Rat)) : Rat := ((returns.length : Rat) - 1) / 365

/-! ## when the simulators sample the equity -/

/-- `timeframe_to_one_minutes` of `backtest_mode.py` -/
def tfMinutes : Timeframe → Nat
  | .m1 => 1 | .m3 => 3 | .m5 => 5 | .m15 => 15 | .m30 => 30 | .m45 => 45
  | .h1 => 60 | .h2 => 120 | .h3 => 180 | .h4 => 240 | .h6 => 360 | .h8 => 480 | .h12 => 720
  | .d1 => 1440 | .d3 => 4320 | .w1 => 10080 | .mo1 => 43200

/-- `_calculate_minimum_candle_step`: `np.gcd.reduce` over the timeframes of all (trading and data) routes -/
def chunkOf : List Timeframe → Nat
  | [] => 0
  | t :: ts => Nat.gcd (tfMinutes t) (chunkOf ts)

/-- the loop variable of `_step_simulator`: `for i in range(length)` -/
def stepLoop (n : Nat) : List Nat := List.range n

/-- the loop variable of `_skip_simulator`: `for i in range(0, length, candles_step)` -/
def fastLoop (n c : Nat) : List Nat := (List.range ((n + c - 1) / c)).map (· * c)

/-- `if i != 0 and i % 1440 == 0: save_daily_portfolio_balance()` -/
def samplesAt (i : Nat) : Bool := decide (i ≠ 0) && decide (i % 1440 = 0)

/-- loop indices at whose end a daily sample is appended (step simulator) -/
def stepSampleIdx (n : Nat) : List Nat := (stepLoop n).filter samplesAt
/-- loop indices at whose end a daily sample is appended (fast simulator, chunk `c`) -/
def fastSampleIdx (n c : Nat) : List Nat := (fastLoop n c).filter samplesAt

/-- `len(store.app.daily_balance)` at the end: initial sample + in-loop samples + final sample -/
def stepSampleCount (n : Nat) : Nat := 1 + (stepSampleIdx n).length + 1
def fastSampleCount (n c : Nat) : Nat := 1 + (fastSampleIdx n c).length + 1

/-! ## what one sample records -/

/-- a futures position as `save_daily_portfolio_balance` sees it -/
structure FutPos where
  isOpen : Bool
  pnl : Rat
deriving Repr, Inhabited

/-- futures branch: `total = e.assets[currency]; for pos in positions: if pos.is_open: total += pos.pnl` -/
def futuresSample (wallet : Rat) : List FutPos → Rat
  | [] => wallet
  | p :: ps => futuresSample (if p.isOpen then wallet + p.pnl else wallet) ps

/-- a spot route as `Strategy.portfolio_value` sees it: the value reserved by this route's active
    entry (buy) orders (already subtracted from the free quote balance at submission) and the market
    value of its position -/
structure SpotRoute where
  reservedQuote : Rat
  positionValue : Rat
deriving Repr, Inhabited

def positionsValue : List SpotRoute → Rat
  | [] => 0
  | r :: rs => r.positionValue + positionsValue rs

def reservedTotal : List SpotRoute → Rat
  | [] => 0
  | r :: rs => r.reservedQuote + reservedTotal rs

/-- spot branch: `for key, pos in positions: total = pos.strategy.portfolio_value; break` with
    `portfolio_value = (Σ over every route of its active entry orders' value + Σ all positions' value) * 1
    + balance` (all routes share one wallet); `routes` is in the iteration order of the stores -/
def spotSample (freeQuote : Rat) (routes : List SpotRoute) : Rat :=
  match routes with
  | [] => 0
  | _ :: _ => (reservedTotal routes + positionsValue routes) * 1 + freeQuote

end Jesse.Metrics
