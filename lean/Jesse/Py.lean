/-
  Jesse/Py.lean — faithful Python / NumPy indexing semantics (DESIGN 2.3).
  No friendly totalisation: an out-of-range read is `none`, negative indices wrap.
-/

namespace Py

/-- Python index normalisation on a sequence of length `n`. -/
def normIdx (n : Nat) (i : Int) : Option Nat :=
  if 0 ≤ i then (if i.toNat < n then some i.toNat else none)
  else (if (-i).toNat ≤ n then some (n - (-i).toNat) else none)

/-- `xs[i]` with Python semantics (IndexError ↦ none). -/
def getIdx {α} (xs : List α) (i : Int) : Option α :=
  match normIdx xs.length i with
  | some k => xs[k]?
  | none => none

/-- clamp a slice bound as CPython's `PySlice_AdjustIndices` does (step = 1). -/
def clampIdx (n : Nat) (i : Int) : Nat :=
  if i < 0 then (if i + n < 0 then 0 else (i + n).toNat) else (if i.toNat < n then i.toNat else n)

/-- position of a slice's start / stop bound on a sequence of length `n` (`none` = omitted) -/
def startIdx (n : Nat) (s : Option Int) : Nat := match s with | none => 0 | some x => clampIdx n x
def stopIdx (n : Nat) (e : Option Int) : Nat := match e with | none => n | some x => clampIdx n x

/-- `xs[start:stop]` with `none` for an omitted bound. -/
def slice {α} (xs : List α) (start stop : Option Int) : List α :=
  (xs.drop (startIdx xs.length start)).take (stopIdx xs.length stop - startIdx xs.length start)

/-- `xs[a:b] = ys` for `len(ys) = b-a` (NumPy broadcasting of equal-length rows);
    `none` when the shapes do not match (NumPy raises ValueError). -/
def setSlice {α} (xs : List α) (start stop : Option Int) (ys : List α) : Option (List α) :=
  if (stopIdx xs.length stop - startIdx xs.length start) = ys.length
  then some (xs.take (startIdx xs.length start) ++ ys ++ xs.drop (startIdx xs.length start + ys.length))
  else none

/-- `np.delete(xs, i, axis=0)`; NumPy raises IndexError when out of bounds (negative wraps). -/
def npDelete {α} (xs : List α) (i : Int) : Option (List α) :=
  match normIdx xs.length i with
  | some k => some (xs.eraseIdx k)
  | none => none

/-- `jh.np_shift(arr, -k, fill)` for k ≥ 0: drop the first k rows and pad the end. -/
def shiftLeft {α} (xs : List α) (k : Nat) (fill : α) : List α :=
  if k = 0 then xs else
  if k ≥ xs.length then List.replicate xs.length fill
  else xs.drop k ++ List.replicate k fill

def colMax (xs : List Rat) : Option Rat :=
  match xs with
  | [] => none
  | x :: r => some (r.foldl (fun a b => if a < b then b else a) x)

def colMin (xs : List Rat) : Option Rat :=
  match xs with
  | [] => none
  | x :: r => some (r.foldl (fun a b => if b < a then b else a) x)

def colSum (xs : List Rat) : Rat := xs.foldl (· + ·) 0

end Py
