/-
  Jesse/TradeLog.lean — the derived fields of a closed trade (jesse/models/ClosedTrade.py: `qty`,
  `entry_price`, `exit_price`, `fee`, `pnl`) over the trade record of the accounts model.
  Tied to the real class by the accounts correspondence (Driver/Acct prints them per closed trade).
-/
import Jesse.Accounts

namespace Jesse.Acc

def qtySum (rows : List (Rat × Rat)) : Rat := (rows.map (·.1)).sum
def notional (rows : List (Rat × Rat)) : Rat := (rows.map (fun r => r.1 * r.2)).sum

/-- `ClosedTrade.qty` -/
def Trade.qty (t : Trade) : Rat :=
  match t.type with
  | some .long => qtySum t.buys
  | some .short => qtySum t.sells
  | _ => 0

/-- `ClosedTrade.entry_price`: quantity-weighted price of the entry side (`none` = NaN) -/
def Trade.entryPrice (t : Trade) : Option Rat :=
  match t.type with
  | some .long => some (notional t.buys / qtySum t.buys)
  | some .short => some (notional t.sells / qtySum t.sells)
  | _ => none

/-- `ClosedTrade.exit_price` -/
def Trade.exitPrice (t : Trade) : Option Rat :=
  match t.type with
  | some .long => some (notional t.sells / qtySum t.sells)
  | some .short => some (notional t.buys / qtySum t.buys)
  | _ => none

/-- `ClosedTrade.pnl` = `estimate_PNL(qty, entry_price, exit_price, type, fee)` -/
def Trade.pnl (fee : Rat) (t : Trade) : Rat :=
  match t.type, t.entryPrice, t.exitPrice with
  | some ty, some en, some ex => Jesse.Gen.estimatePNL t.qty en ex ty fee
  | _, _, _ => 0

/-- `ClosedTrade.fee` -/
def Trade.feePaid (fee : Rat) (t : Trade) : Rat :=
  match t.entryPrice, t.exitPrice with
  | some en, some ex => fee * t.qty * (en + ex)
  | _, _ => 0

end Jesse.Acc
