/-
  Jesse/FillAbsent.lean — hand model of `_fill_absent_candles`
  (jesse/modes/import_candles_mode/__init__.py): one candle per minute of [start, end], provided
  candles kept, missing minutes filled with a flat zero-volume candle at the previous close (or at
  the first known open before any candle exists).  `pydash.find` = first match.
-/
import Jesse.Basic

namespace Jesse.FillAbsent
open Jesse

def flat (ts : Int) (p : Rat) : Candle := ⟨ts, p, p, p, p, 0⟩

/-- `int(((end - start) / 60000) + 1)`: float division, truncation toward zero -/
def loopLength (start stop : Int) : Nat :=
  let x : Rat := ((stop - start : Int) : Rat) / 60000 + 1
  if x < 0 then 0 else (Rat.floor x).toNat

/-- the `for` loop: `n` iterations from timestamp `ts`; `started` and the close of the last emitted
    candle are the loop state -/
def fillLoop (temp : List Candle) (firstOpen : Rat) : Nat → Int → Bool → Rat → List Candle
  | 0, _, _, _ => []
  | n + 1, ts, started, lastClose =>
    match temp.find? (fun c => c.ts = ts) with
    | some c => c :: fillLoop temp firstOpen n (ts + 60000) true c.c
    | none =>
      let p := if started then lastClose else firstOpen
      flat ts p :: fillLoop temp firstOpen n (ts + 60000) started p

def fillAbsent (temp : List Candle) (start stop : Int) : Except Err (List Candle) :=
  match temp with
  | [] => .error .Other          -- CandleNotFoundInExchange
  | first :: _ => .ok (fillLoop temp first.o (loopLength start stop) start false first.o)

end Jesse.FillAbsent
