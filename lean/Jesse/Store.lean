/-
  Jesse/Store.lean — hand model of the candle store for one (exchange, symbol)
  (jesse/store/state_candles.py), backtest mode.  The stored arrays are plain lists here: that the
  real `DynamicNumpyArray` behaves like a list under the operations used (append, a[-1], a[-i],
  a[-i] = x, a[:], len, append_multiple, a[-k:] = rows) is property C18 (Proofs/C18.lean); the
  composition is proved for `add_candle` and (new / ending-at-the-last-minute chunks) `add_multiple_1m_candles`
  (Jesse/StoreD.lean, Proofs/C20.lean `addCandleD_refines`, `addMultipleD_refines`).  Tied to the real store by the
  correspondence check (harness/props/c20.py, c07.py).
-/
import Jesse.Basic
import Jesse.Py
import Jesse.Gen.CandleSvc

namespace Jesse.Store
open Jesse

/-- replace the first row that carries the candle's timestamp -/
def replaceFirst : List Candle → Candle → List Candle
  | [], _ => []
  | x :: xs, c => if x.ts = c.ts then c :: xs else x :: replaceFirst xs c

/-- `for i in range(1, len(arr)+1): if arr[-i][0] == candle[0]: arr[-i] = candle; break` -/
def replaceFromEnd (arr : List Candle) (c : Candle) : List Candle :=
  (replaceFirst arr.reverse c).reverse

/-- `CandlesState.add_candle` (backtest mode: no live branches, no generation) on one array -/
def addCandle (arr : List Candle) (c : Candle) : List Candle :=
  if c.ts = 0 then arr else
  match arr.getLast? with
  | none => arr ++ [c]                                   -- initial
  | some last =>
    if c.ts > last.ts then arr ++ [c]                    -- new: append
    else if c.ts = last.ts then arr.dropLast ++ [c]      -- the last candle again: arr[-1] = candle
    else replaceFromEnd arr c                            -- older: search and replace

/-- `batch_add_candle` -/
def batchAdd (arr : List Candle) (cs : List Candle) : List Candle := cs.foldl addCandle arr

/-- `add_multiple_1m_candles` (fast simulator) -/
def addMultiple1m (arr cs : List Candle) : Except Err (List Candle) :=
  match cs.head?, cs.getLast? with
  | some c0, some cl =>
    match arr.getLast? with
    | none => .ok (arr ++ cs)
    | some last =>
      if c0.ts > last.ts then .ok (arr ++ cs)
      else match Py.getIdx arr (-(cs.length : Int)) with
        | none => .error .IndexError
        | some a =>
          if c0.ts ≥ a.ts ∧ cl.ts ≥ last.ts then
            -- override = int(len(candles) - (candles[-1].ts - arr[-1].ts) / 60000); arr[-override:] = candles
            let ov : Int := (cs.length : Int) - (cl.ts - last.ts) / 60000
            if ov ≤ 0 then .ok arr     -- arr[-0:] = candles writes from row 0 of the backing array: not modelled
            else .ok (arr.take (arr.length - ov.toNat) ++ cs.take ov.toNat)
          else .error .IndexError
  | _, _ => .error .IndexError

/-- aggregate of a non-empty list of 1m candles with the GENERATED `generate_candle_from_one_minutes`
    (`accept_forming_candles = True`) -/
def generate (m : Nat) (cs : List Candle) : Except Err Candle := Jesse.Gen.generateCandle m cs True

/-- `get_candles(exchange, symbol, timeframe)` for a timeframe of `m` > 1 minutes:
    `short` = stored 1m candles, `long` = stored candles of the timeframe.  While a window is forming
    the forming candle is regenerated from the stored 1m candles; a partial candle of the same window
    stored at a fill (same timestamp as the window's first minute) is dropped first. -/
def getCandles (short long : List Candle) (m : Nat) : Except Err (List Candle) :=
  let dif := short.length % m
  if dif = 0 ∧ long.length = 0 then .ok []
  else if dif = 0 then .ok long
  else
    match short[short.length - dif]? with
    | none => .error .IndexError
    | some s0 =>
      let complete := match long.getLast? with
        | some l => if l.ts = s0.ts then long.dropLast else long
        | none => long
      match generate m (short.drop (short.length - dif)) with
      | .ok g => .ok (complete ++ [g])
      | .error e => .error e

/-- `get_current_candle` for a timeframe of `m` > 1 minutes (`none` = the empty (0,6) array) -/
def getCurrentCandle (short long : List Candle) (m : Nat) : Except Err (Option Candle) :=
  let dif := short.length % m
  if dif ≠ 0 then
    match generate m (short.drop (short.length - dif)) with
    | .ok g => .ok (some g)
    | .error e => .error e
  else .ok long.getLast?

/-- `inject_warmup_candles_to_store`, the part that builds ONE bigger timeframe of `m` minutes, after the first `j`
    iterations of `for i in range(len(candles))`: `if (i + 1) % m == 0: add_candle(generate(candles[i-(m-1) : i+1]))` -/
def injectLongUpTo (m : Nat) (cs : List Candle) : Nat → Except Err (List Candle)
  | 0 => .ok []
  | j + 1 =>
    match injectLongUpTo m cs j with
    | .error e => .error e
    | .ok long =>
      if (j + 1) % m = 0 then
        match generate m ((cs.drop (j + 1 - m)).take m) with
        | .ok g => .ok (addCandle long g)
        | .error e => .error e
      else .ok long

/-- `inject_warmup_candles_to_store(candles)`: the 1m array (`batch_add_candle`) and the array of each bigger
    timeframe in `tfs` -/
def injectWarmup (tfs : List Nat) (cs : List Candle) : Except Err (List Candle × List (Nat × List Candle)) :=
  if cs = [] then .error .ValueError else
  match tfs.mapM (fun m => (injectLongUpTo m cs cs.length).map (fun l => (m, l))) with
  | .ok longs => .ok (batchAdd [] cs, longs)
  | .error e => .error e

/-- the input check of `_isolated_backtest`: `candle_set[1][0] - candle_set[0][0] != 60_000` raises -/
def spacingCheck (cs : List Candle) : Except Err Unit :=
  match cs with
  | c0 :: c1 :: _ => if c1.ts - c0.ts ≠ 60000 then .error .ValueError else .ok ()
  | _ => .error .IndexError

end Jesse.Store
