/-
  Jesse/Wire.lean — parsing and printing for the line protocol (DESIGN Appendix B).
  Numbers travel as `n` or `n/d` (exact), candles as six numbers.
-/
import Jesse.Basic

namespace Jesse.Wire

def parseInt? (s : String) : Option Int := s.toInt?

def parseRat? (s : String) : Option Rat :=
  match s.splitOn "/" with
  | [n] => (parseInt? n).map (fun i => (i : Rat))
  | [n, d] => do
      let a ← parseInt? n
      let b ← parseInt? d
      if b = 0 then none else some ((a : Rat) / (b : Rat))
  | _ => none

def showRat (r : Rat) : String :=
  if r.den = 1 then toString r.num else toString r.num ++ "/" ++ toString r.den

def showCandle (k : Candle) : String :=
  s!"{k.ts} {showRat k.o} {showRat k.c} {showRat k.h} {showRat k.l} {showRat k.v}"

def parseCandle? (xs : List String) : Option Candle :=
  match xs with
  | [t, o, c, h, l, v] => do
      let t ← parseRat? t
      let o ← parseRat? o
      let c ← parseRat? c
      let h ← parseRat? h
      let l ← parseRat? l
      let v ← parseRat? v
      some ⟨t.floor, o, c, h, l, v⟩
  | _ => none

def parseSide? : String → Option Side
  | "buy" => some .buy | "sell" => some .sell | _ => none
def showSide : Side → String | .buy => "buy" | .sell => "sell"

def parsePosType? : String → Option PosType
  | "long" => some .long | "short" => some .short | "close" => some .close | _ => none
def showPosType : PosType → String | .long => "long" | .short => "short" | .close => "close"

def parseOrderType? : String → Option OrderType
  | "MARKET" => some .market | "LIMIT" => some .limit | "STOP" => some .stop | _ => none
def showOrderType : OrderType → String | .market => "MARKET" | .limit => "LIMIT" | .stop => "STOP"

def parseBool? : String → Option Bool
  | "1" => some true | "true" => some true | "True" => some true
  | "0" => some false | "false" => some false | "False" => some false | _ => none

def showExcept {α} (f : α → String) : Except Err α → String
  | .ok a => "ok " ++ f a
  | .error e => "err " ++ e.name

def showOption {α} (f : α → String) : Option α → String
  | some a => "ok " ++ f a
  | none => "none"

/-- split a list of tokens into chunks of six (candles) -/
def chunks6 : List String → List (List String)
  | a :: b :: c :: d :: e :: f :: rest => [a, b, c, d, e, f] :: chunks6 rest
  | _ => []

def parseCandles? (xs : List String) : Option (List Candle) :=
  if xs.length % 6 ≠ 0 then none else (chunks6 xs).mapM parseCandle?

end Jesse.Wire
