/-
  Driver/Eng.lean — whole-session line protocol for the engine model with a SCRIPTED strategy
  (the same script language is interpreted by harness/engine.py `make_strategy` on the real engine).

  eng <futures|spot> <balance> <fee> <leverage> <isolated 0|1> <fast 0|1> <nsym>
      R <nroutes> (<sym> <tf>)*  D <ndata> (<sym> <tf>)*
      S <script>   (one per route, see `parseScript`)
      K <n> (ts o c h l v)*   (one per symbol)
  → one line: events separated by " ; "
-/
import Jesse.Wire
import Jesse.Engine

namespace Driver.Eng
open Jesse Jesse.Wire Jesse.Acc Jesse.Eng

structure EntrySpec where
  every : Nat
  phase : Nat
  rows : Rows
  sl : Option Rows
  tp : Option Rows
deriving Repr, Inhabited

structure Script where
  long : Option EntrySpec := none
  short : Option EntrySpec := none
  cancelAfter : Option Nat := none
  onOpenSl : Option Rows := none
  onOpenTp : Option Rows := none
  updEvery : Option Nat := none
  updSl : Option Rat := none
  updTp : Option Rat := none
  onReducedSl : Option Rat := none
  liquidateAt : Option Nat := none
  gate : Option Nat := none            -- entries only while the last candle of this timeframe (minutes) closed up
  withdrawTpAt : Option Nat := none    -- `self.take_profit = []` in update_position at this index
  withdrawSlAt : Option Nat := none    -- `self.stop_loss = []`
deriving Repr, Inhabited

structure Mem where
  enteredAt : Nat := 0
deriving Repr, Inhabited

abbrev E := Engine Mem

def offRows (rows : Rows) (base : Rat) : Rows := rows.map (fun r => (r.1, base + r.2))

def idxOf (e : E) (r : Nat) : Nat := (stratOf e r).index
def posQ (e : E) (r : Nat) : Rat := (posOf e (routeOf e r).sym).qty

/-- the scripted strategy of a session: route `r` interprets `scripts[r]` -/
def scripted (scripts : List Script) : UserStrategy Mem :=
  let sc := fun (r : Nat) => scripts.getD r {}
  let fires := fun (s : Option EntrySpec) (i : Nat) =>
    match s with | some x => i % x.every = x.phase | none => false
  -- `self.get_candles(exchange, symbol, tf)[-1]` closed at or above its open (no candle yet: no entry)
  let gateOk := fun (e : E) (r : Nat) =>
    match (sc r).gate with
    | none => true
    | some tf =>
      let st := storeOf e (routeOf e r).sym
      match Store.getCandles st.short (longOf st tf) tf with
      | .ok cs => (match cs.getLast? with | some c => decide (c.c ≥ c.o) | none => false)
      | .error _ => false
  { before := fun _ _ m => m
    after := fun _ _ m => m
    shouldLong := fun e r _ => fires (sc r).long (idxOf e r) && gateOk e r
    shouldShort := fun e r _ => decide (fires (sc r).short (idxOf e r) ∧ ¬ fires (sc r).long (idxOf e r)) && gateOk e r
    shouldCancelEntry := fun e r m =>
      match (sc r).cancelAfter with | some n => idxOf e r - m.enteredAt ≥ n | none => false
    goLong := fun e r _ d =>
      match (sc r).long with
      | some x =>
        let p := priceOf e r
        ({ enteredAt := idxOf e r },
         { d with buy := some (offRows x.rows p),
                  stopLoss := match x.sl with | some s => some (offRows s p) | none => d.stopLoss,
                  takeProfit := match x.tp with | some s => some (offRows s p) | none => d.takeProfit })
      | none => ({ enteredAt := idxOf e r }, d)
    goShort := fun e r _ d =>
      match (sc r).short with
      | some x =>
        let p := priceOf e r
        ({ enteredAt := idxOf e r },
         { d with sell := some (offRows x.rows p),
                  stopLoss := match x.sl with | some s => some (offRows s p) | none => d.stopLoss,
                  takeProfit := match x.tp with | some s => some (offRows s p) | none => d.takeProfit })
      | none => ({ enteredAt := idxOf e r }, d)
    onOpen := fun e r _ m d =>
      let p := posOf e (routeOf e r).sym
      let base := p.entry.getD 0
      let sign : Rat := if p.qty > 0 then 1 else -1
      let mk := fun (rows : Rows) (dirn : Rat) =>
        rows.map (fun row => ((if row.1 = 0 then absR p.qty else row.1), base + dirn * row.2))
      (m, { d with stopLoss := match (sc r).onOpenSl with | some s => some (mk s (-sign)) | none => d.stopLoss,
                   takeProfit := match (sc r).onOpenTp with | some s => some (mk s sign) | none => d.takeProfit })
    updatePosition := fun e r m d =>
      let p := posOf e (routeOf e r).sym
      let sign : Rat := if p.qty > 0 then 1 else -1
      let price := priceOf e r
      let d1 := match (sc r).updEvery with
        | some ev =>
          if idxOf e r % ev = 0 then
            { d with stopLoss := match (sc r).updSl with | some x => some [(absR p.qty, price - sign * x)] | none => d.stopLoss,
                     takeProfit := match (sc r).updTp with | some x => some [(absR p.qty, price + sign * x)] | none => d.takeProfit }
          else d
        | none => d
      let d1 := if (sc r).withdrawTpAt = some (idxOf e r) then { d1 with takeProfit := some [] } else d1
      let d1 := if (sc r).withdrawSlAt = some (idxOf e r) then { d1 with stopLoss := some [] } else d1
      let d2 := if (sc r).liquidateAt = some (idxOf e r) then
          (if p.pnl > 0 then { d1 with takeProfit := some [(p.qty, price)] } else { d1 with stopLoss := some [(p.qty, price)] })
        else d1
      (m, d2)
    onIncreased := fun _ _ _ m d => (m, d)
    onReduced := fun e r _ m d =>
      let p := posOf e (routeOf e r).sym
      let sign : Rat := if p.qty > 0 then 1 else -1
      match (sc r).onReducedSl with
      | some x => (m, { d with stopLoss := some [(absR p.qty, p.entry.getD 0 - sign * x)] })
      | none => (m, d)
    onClose := fun _ _ _ m d => (m, d)
    beforeTerminate := fun _ _ m d => (m, d) }

/-! ### parsing -/

abbrev P := StateT (List String) Option

def tok : P String := do
  let s ← get
  match s with
  | [] => failure
  | x :: r => set r; pure x

def natP : P Nat := do let t ← tok; match t.toNat? with | some n => pure n | none => failure
def ratP : P Rat := do let t ← tok; match parseRat? t with | some n => pure n | none => failure
def optNatP : P (Option Nat) := do let t ← tok; if t = "-" then pure none else match t.toNat? with | some n => pure (some n) | none => failure
def optRatP : P (Option Rat) := do let t ← tok; if t = "-" then pure none else match parseRat? t with | some n => pure (some n) | none => failure
def expectP (s : String) : P Unit := do let t ← tok; if t = s then pure () else failure

def repeatP {α} (n : Nat) (p : P α) : P (List α) :=
  match n with
  | 0 => pure []
  | k + 1 => do let x ← p; let xs ← repeatP k p; pure (x :: xs)

def rowsP : P Rows := do
  let n ← natP
  repeatP n (do let q ← ratP; let o ← ratP; pure (q, o))

def optRowsP : P (Option Rows) := do
  let s ← get
  match s with
  | "-" :: r => set r; pure none
  | _ => do let rs ← rowsP; pure (some rs)

def entryP : P (Option EntrySpec) := do
  let s ← get
  match s with
  | "-" :: r => set r; pure none
  | _ => do
    let ev ← natP; let ph ← natP; let rows ← rowsP; let sl ← optRowsP; let tp ← optRowsP
    pure (some ⟨ev, ph, rows, sl, tp⟩)

def scriptP : P Script := do
  expectP "S"
  let long ← entryP
  let short ← entryP
  let ca ← optNatP
  let osl ← optRowsP
  let otp ← optRowsP
  let ue ← optNatP
  let usl ← optRatP
  let utp ← optRatP
  let rsl ← optRatP
  let liq ← optNatP
  let gate ← optNatP
  let wtp ← optNatP
  let wsl ← optNatP
  pure { long := long, short := short, cancelAfter := ca, onOpenSl := osl, onOpenTp := otp, updEvery := ue,
         updSl := usl, updTp := utp, onReducedSl := rsl, liquidateAt := liq, gate := gate, withdrawTpAt := wtp, withdrawSlAt := wsl }

def candleP : P Candle := do
  let t ← ratP; let o ← ratP; let c ← ratP; let h ← ratP; let l ← ratP; let v ← ratP
  pure ⟨t.floor, o, c, h, l, v⟩

def routeP : P RouteCfg := do let s ← natP; let t ← natP; pure ⟨s, t⟩

structure Session where
  kind : Kind
  balance : Rat
  fee : Rat
  leverage : Rat
  isolated : Bool
  fast : Bool
  cfg : Cfg
  scripts : List Script
  inputs : List (List Candle)

def sessionP : P Session := do
  let k ← tok
  let kind ← (if k = "futures" then pure Kind.futures else if k = "spot" then pure Kind.spot else failure)
  let bal ← ratP; let fee ← ratP; let lev ← ratP
  let iso ← natP; let fast ← natP; let nsym ← natP
  expectP "R"; let nr ← natP; let routes ← repeatP nr routeP
  expectP "D"; let nd ← natP; let dr ← repeatP nd routeP
  let scripts ← repeatP nr scriptP
  let inputs ← repeatP nsym (do expectP "K"; let n ← natP; repeatP n candleP)
  pure { kind := kind, balance := bal, fee := fee, leverage := lev, isolated := iso = 1, fast := fast = 1,
         cfg := { routes := routes, dataRoutes := dr, nsym := nsym, isolated := iso = 1 },
         scripts := scripts, inputs := inputs }

/-! ### printing -/

def showOptR (o : Option Rat) : String := match o with | some r => showRat r | none => "_"

def showEvent : Event → String
  | .hook r n i p q pnl => s!"HOOK {r} {n} {i} {showRat p} {showRat q} {showRat pnl}"
  | .submit id sym side ty q p ro => s!"SUBMIT {id} {sym} {showSide side} {showOrderType ty} {showRat q} {showRat p} {if ro then 1 else 0}"
  | .reject k => s!"REJECT {k.name}"
  | .fill id t p q => s!"FILL {id} {t} {showRat p} {showRat q}"
  | .cancel id t => s!"CANCEL {id} {t}"
  | .pos sym q e => s!"POS {sym} {showRat q} {showOptR e}"
  | .daily t v => s!"DAILY {t} {showRat v}"
  | .liquidation sym => s!"LIQ {sym}"

def handle (args : List String) : String :=
  match (sessionP.run args) with
  | some (s, []) =>
    let e0 : E := initEngine s.cfg s.kind s.balance s.fee s.leverage {}
    let u := scripted s.scripts
    let fuel := 400
    let e := if s.fast then runSkip u fuel s.inputs e0 else runStep u fuel s.inputs e0
    let evs := e.log.map showEvent
    let fin := s!"END wallet={showRat e.w.wallet} " ++ " ".intercalate ((List.range s.cfg.nsym).map (fun i =>
      let p := Acc.getD e.w.pos i; s!"pos{i}={showRat p.qty}")) ++ s!" trades={e.w.trades.length} liq={e.liquidations}"
    " ; ".intercalate (if e.err.isSome then evs else evs ++ [fin])
  | _ => "bad-op"

end Driver.Eng
