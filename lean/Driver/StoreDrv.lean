/-
  Driver/StoreDrv.lean — line protocol for FillAbsent and the candle-store model.
  `fa <start> <stop> <n> (ts o c h l v)*` · `st addseq <n> (…)*` · `st addmulti <k> (…)* <m> (…)*` ·
  `st get <tfMinutes> <k> (short…) <j> (long…)` · `st current <tfMinutes> <k> (…) <j> (…)` ·
  `st spacing <n> (…)*` · `st warm <k> <tf>*k <n> (…)*` (warm-up injection: 1m array and one array per bigger timeframe) · `st addseqd <bucket> <n> (…)*` · `st addmultid <bucket> <k> (…)* <m> (…)*` (the same calls ON THE ARRAY MODEL, Jesse/StoreD.lean)
-/
import Jesse.Wire
import Jesse.FillAbsent
import Jesse.Store
import Jesse.StoreD

namespace Driver.StoreDrv
open Jesse Jesse.Wire

def takeCandles : Nat → List String → Option (List Candle × List String)
  | 0, xs => some ([], xs)
  | k + 1, xs => do
      let c ← parseCandle? (xs.take 6)
      if xs.length < 6 then none else
      let (cs, r) ← takeCandles k (xs.drop 6)
      some (c :: cs, r)

def showCandles (cs : List Candle) : String :=
  "[" ++ ";".intercalate (cs.map showCandle) ++ "]"

def countThen (xs : List String) : Option (List Candle × List String) :=
  match xs with
  | n :: rest => match n.toNat? with
    | some n => takeCandles n rest
    | none => none
  | [] => none

def handleFa (args : List String) : String :=
  match args with
  | s :: e :: rest =>
    match s.toInt?, e.toInt?, countThen rest with
    | some s, some e, some (cs, []) => showExcept showCandles (FillAbsent.fillAbsent cs s e)
    | _, _, _ => "bad-op"
  | _ => "bad-op"

def handleSt (args : List String) : String :=
  match args with
  | "addseq" :: rest =>
    (match countThen rest with
     | some (cs, []) => "ok " ++ showCandles (Store.batchAdd [] cs)
     | _ => "bad-op")
  | "addseqd" :: b :: rest =>
    (match b.toNat?, countThen rest with
     | some b, some (cs, []) =>
       (match StoreD.batchAddD (DynArray.new b 6 none) (cs.map StoreD.enc) with
        | .ok a => "ok [" ++ ";".intercalate (a.abs.map (fun r => " ".intercalate (r.map showRat))) ++ "]"
        | .error e => "err " ++ e.name)
     | _, _ => "bad-op")
  | "warm" :: k :: rest =>
    (match k.toNat? with
     | some k =>
       (match (rest.take k).mapM String.toNat?, countThen (rest.drop k) with
        | some tfs, some (cs, []) =>
          (match Store.injectWarmup tfs cs with
           | .ok (short, longs) =>
             "ok " ++ showCandles short ++ String.join (longs.map (fun (m, l) => s!" | {m} " ++ showCandles l))
           | .error e => "err " ++ e.name)
        | _, _ => "bad-op")
     | none => "bad-op")
  | "addmultid" :: b :: rest =>
    (match b.toNat?, countThen rest with
     | some b, some (arr, rest2) => (match countThen rest2 with
        | some (cs, []) =>
          (match StoreD.batchAddD (DynArray.new b 6 none) (arr.map StoreD.enc) with
           | .ok a0 => (match StoreD.addMultipleD a0 (cs.map StoreD.enc) with
              | .ok a => "ok [" ++ ";".intercalate (a.abs.map (fun r => " ".intercalate (r.map showRat))) ++ "]"
              | .error e => "err " ++ e.name)
           | .error e => "err " ++ e.name)
        | _ => "bad-op")
     | _, _ => "bad-op")
  | "addmulti" :: rest =>
    (match countThen rest with
     | some (arr, rest2) => (match countThen rest2 with
        | some (cs, []) => showExcept showCandles (Store.addMultiple1m arr cs)
        | _ => "bad-op")
     | none => "bad-op")
  | "get" :: m :: rest =>
    (match m.toNat?, countThen rest with
     | some m, some (short, rest2) => (match countThen rest2 with
        | some (long, []) => showExcept showCandles (Store.getCandles short long m)
        | _ => "bad-op")
     | _, _ => "bad-op")
  | "current" :: m :: rest =>
    (match m.toNat?, countThen rest with
     | some m, some (short, rest2) => (match countThen rest2 with
        | some (long, []) => (match Store.getCurrentCandle short long m with
            | .ok (some c) => "ok " ++ showCandle c | .ok none => "none" | .error e => "err " ++ e.name)
        | _ => "bad-op")
     | _, _ => "bad-op")
  | "spacing" :: rest =>
    (match countThen rest with
     | some (cs, []) => (match Store.spacingCheck cs with | .ok _ => "ok" | .error e => "err " ++ e.name)
     | _ => "bad-op")
  | _ => "bad-op"

end Driver.StoreDrv
