/-
  Driver/DynArr.lean — line protocol for the DynArray model.
  `da new <bucket> <width> [<drop_at>]` · `da append r…` · `da append_multiple k r…` · `da get i` ·
  `da slice a b` (`_` = None) · `da set i r…` · `da setslice a b k r…` · `da delete i` · `da flush` ·
  `da last` · `da past k`.  Every reply ends with the full abstract state.
-/
import Jesse.Wire
import Jesse.DynArray

namespace Driver.DynArr
open Jesse Jesse.Wire

def showRow (r : Row) : String := "(" ++ " ".intercalate (r.map showRat) ++ ")"
def showRows (rs : List Row) : String := "[" ++ "".intercalate (rs.map showRow) ++ "]"

def showState (a : DynArray) : String :=
  s!"len={a.len} cap={a.array.length} rows={showRows a.abs}"

def optInt? (s : String) : Option (Option Int) :=
  if s = "_" then some none else (s.toInt?).map some

def rows? (w : Nat) (xs : List String) : Option (List Row) :=
  if w = 0 then none else
  if xs.length % w ≠ 0 then none else
    let rec go (fuel : Nat) (ys : List String) (acc : List Row) : Option (List Row) :=
      match fuel with
      | 0 => some acc.reverse
      | f + 1 =>
        if ys.isEmpty then some acc.reverse else
        match (ys.take w).mapM parseRat? with
        | some r => go f (ys.drop w) (r :: acc)
        | none => none
    go (xs.length + 1) xs []

def handle (st : Option DynArray) (args : List String) : Option DynArray × String :=
  match args with
  | ["new", b, w] => match b.toNat?, w.toNat? with
      | some b, some w => let a := DynArray.new b w none; (some a, "ok " ++ showState a)
      | _, _ => (st, "bad-op")
  | ["new", b, w, d] => match b.toNat?, w.toNat?, d.toNat? with
      | some b, some w, some d => let a := DynArray.new b w (some d); (some a, "ok " ++ showState a)
      | _, _, _ => (st, "bad-op")
  | cmd :: rest =>
    match st with
    | none => (st, "bad-op")
    | some a =>
      let upd (r : Except Err DynArray) : Option DynArray × String :=
        match r with
        | .ok a' => (some a', "ok " ++ showState a')
        | .error e => (some a, "err " ++ e.name)
      let rd (r : Except Err Row) : Option DynArray × String :=
        match r with
        | .ok row => (some a, "ok " ++ showRow row)
        | .error e => (some a, "err " ++ e.name)
      match cmd, rest with
      | "append", xs => match xs.mapM parseRat? with
          | some r => upd (a.append r) | none => (st, "bad-op")
      | "append_multiple", _k :: xs => match rows? a.width xs with
          | some rs => upd (a.appendMultiple rs) | none => (st, "bad-op")
      | "get", [i] => match i.toInt? with
          | some i => rd (a.getItem i) | none => (st, "bad-op")
      | "slice", [s, e] => match optInt? s, optInt? e with
          | some s, some e => (some a, "ok " ++ showRows (a.getSlice s e)) | _, _ => (st, "bad-op")
      | "set", i :: xs => match i.toInt?, xs.mapM parseRat? with
          | some i, some r => upd (a.setItem i r) | _, _ => (st, "bad-op")
      | "setslice", s :: e :: _k :: xs => match optInt? s, optInt? e, rows? a.width xs with
          | some s, some e, some rs => upd (a.setSlice s e rs) | _, _, _ => (st, "bad-op")
      | "delete", [i] => match i.toInt? with
          | some i => upd (a.delete i) | none => (st, "bad-op")
      | "flush", [] => let a' := a.flush; (some a', "ok " ++ showState a')
      | "last", [] => rd a.getLast
      | "past", [k] => match k.toInt? with
          | some k => rd (a.getPast k) | none => (st, "bad-op")
      | _, _ => (st, "bad-op")
  | [] => (st, "bad-op")

end Driver.DynArr
