/-
  Driver/Pure.lean — `call <fn> args…` for every translated (generated) function, used by the
  correspondence check to cross-check the translator against the real Python functions.
-/
import Jesse.Wire
import Jesse.Gen.CandleSvc
import Jesse.Gen.Helpers
import Jesse.Gen.Utils
import Jesse.Gen.Position
import Jesse.Gen.Routing
import Jesse.Gen.Tables
import Jesse.Gen.Sim
import Spec.PathSplit

namespace Driver.Pure
open Jesse Jesse.Wire Jesse.Gen

def showApi (a : ApiCall) : String :=
  s!"{showOrderType a.type} {showRat a.qty} {showRat a.price} {showSide a.side} {if decide a.reduceOnly then 1 else 0}"

def showBroker : BrokerCall → String
  | .buyAtMarket q => s!"buy_at_market {showRat q}"
  | .sellAtMarket q => s!"sell_at_market {showRat q}"
  | .buyAt q p => s!"buy_at {showRat q} {showRat p}"
  | .sellAt q p => s!"sell_at {showRat q} {showRat p}"
  | .startProfitAt s q p => s!"start_profit_at {showSide s} {showRat q} {showRat p}"

def parseMode? : String → Option Mode
  | "isolated" => some .isolated | "cross" => some .cross | "spot" => some .spot | _ => none

def parsePosView? (xs : List String) : Option PosView :=
  match xs with
  | [q, e, c, l, m, s] => do
      let q ← parseRat? q; let e ← parseRat? e; let c ← parseRat? c; let l ← parseRat? l
      let m ← parseMode? m; let s ← parseBool? s
      some { qty := q, entry := e, current := c, leverage := l, mode := m, hasStrategy := (s = true) }
  | _ => none

def parseHpType? : String → Option HpType
  | "int" => some .int | "float" => some .float | "other" => some .other | _ => none

def rats? (xs : List String) : Option (List Rat) := xs.mapM parseRat?

def bool01 (b : Bool) : String := if b then "ok 1" else "ok 0"

def call (fn : String) (args : List String) : String :=
  let bad := "bad-op"
  match fn with
  | "is_bullish" => match parseCandle? args with | some k => bool01 (decide (isBullish k)) | none => bad
  | "is_bearish" => match parseCandle? args with | some k => bool01 (decide (isBearish k)) | none => bad
  | "candle_includes_price" =>
      match parseCandle? (args.take 6), (args.drop 6).mapM parseRat? with
      | some k, some [p] => bool01 (decide (candleIncludesPrice k p)) | _, _ => bad
  | "split_candle" =>
      match parseCandle? (args.take 6), (args.drop 6).mapM parseRat? with
      | some k, some [p] => showOption (fun (ab : Candle × Candle) => showCandle ab.1 ++ " | " ++ showCandle ab.2) (splitCandle k p)
      | _, _ => bad
  | "path_split" =>
      match parseCandle? (args.take 6), (args.drop 6).mapM parseRat? with
      | some k, some [p] => let ab := Spec.pathSplit k p; "ok " ++ showCandle ab.1 ++ " | " ++ showCandle ab.2
      | _, _ => bad
  | "fix_jump" =>
      match parseCandle? (args.take 6), parseCandle? (args.drop 6) with
      | some p, some k => "ok " ++ showCandle (fixJump p k)
      | _, _ => bad
  | "generate_candle" =>
      match args with
      | n :: acc :: rest =>
        match n.toNat?, parseBool? acc, parseCandles? rest with
        | some n, some acc, some cs => showExcept showCandle (generateCandle n cs (acc = true))
        | _, _, _ => bad
      | _ => bad
  | "convert_number" => match rats? args with
      | some [a, b, c, d, e] => showExcept showRat (convertNumber a b c d e) | _ => bad
  | "decode_gene" => match args with
      | [t, mn, mx, g] => match parseHpType? t, parseRat? mn, parseRat? mx, g.toNat? with
        | some t, some mn, some mx, some g => showExcept showRat (decodeGene { type := t, min := mn, max := mx } g)
        | _, _, _, _ => bad
      | _ => bad
  | "estimate_average_price" => match rats? args with
      | some [a, b, c, d] => "ok " ++ showRat (estimateAveragePrice a b c d) | _ => bad
  | "estimate_PNL" => match args with
      | [q, e, x, t, f] => match rats? [q, e, x, f], parsePosType? t with
        | some [q, e, x, f], some t => "ok " ++ showRat (estimatePNL q e x t f) | _, _ => bad
      | _ => bad
  | "floor_with_precision" => match args with
      | [n, p] => match parseRat? n, parseInt? p with
        | some n, some p => "ok " ++ showRat (floorWithPrecision n p) | _, _ => bad
      | _ => bad
  | "is_price_near" => match rats? args with
      | some [a, b] => bool01 (decide (isPriceNear a b defaultThreshold))
      | some [a, b, c] => bool01 (decide (isPriceNear a b c)) | _ => bad
  | "max_timeframe" => match args.mapM Timeframe.ofStr? with
      | some tfs => "ok " ++ (maxTimeframe tfs).str | none => bad
  | "opposite_side" => match args with
      | [s] => match parseSide? s with | some s => showExcept showSide (oppositeSide s) | none => bad
      | _ => bad
  | "type_to_side" => match args with
      | [s] => match parsePosType? s with | some s => showExcept showSide (typeToSide s) | none => bad
      | _ => bad
  | "round_decimals_down" => match args with
      | [n, p] => match parseRat? n, parseInt? p with
        | some n, some p => showExcept showRat (roundDecimalsDown n p) | _, _ => bad
      | _ => bad
  | "limit_stop_loss" => match args with
      | [e, s, t, m] => match rats? [e, s, m], parsePosType? t with
        | some [e, s, m], some t => "ok " ++ showRat (limitStopLoss e s t m) | _, _ => bad
      | _ => bad
  | "risk_to_size" => match rats? args with
      | some [a, b, c, d] => showExcept showRat (riskToSize a b c d) | _ => bad
  | "size_to_qty" => match args with
      | [s, e, p, f] => match rats? [s, e, f], parseInt? p with
        | some [s, e, f], some p => showExcept showRat (sizeToQty s e p f) | _, _ => bad
      | _ => bad
  | "risk_to_qty" => match args with
      | [c, r, e, s, p, f] => match rats? [c, r, e, s, f], parseInt? p with
        | some [c, r, e, s, f], some p => showExcept showRat (riskToQty c r e s p f) | _, _ => bad
      | _ => bad
  | "qty_to_size" => match rats? args with
      | some [a, b] => showExcept showRat (qtyToSize a b) | _ => bad
  | "estimate_risk" => match rats? args with
      | some [a, b] => showExcept showRat (estimateRisk a b) | _ => bad
  | "pos_type" => match parsePosView? args with | some p => "ok " ++ showPosType (posType p) | none => bad
  | "bankruptcy_price" => match parsePosView? args with
      | some p => showOption showRat (bankruptcyPrice p) | none => bad
  | "liquidation_price" => match parsePosView? args with
      | some p => (match liquidationPrice p with
          | .ok (some r) => "ok " ++ showRat r | .ok none => "none" | .error e => "err " ++ e.name)
      | none => bad
  | "pos_value" => match parsePosView? args with | some p => "ok " ++ showRat (posValue p) | none => bad
  | "pos_pnl" => match parsePosView? args with | some p => "ok " ++ showRat (posPnl p) | none => bad
  | "total_cost" => match parsePosView? args with | some p => showOption showRat (totalCost p) | none => bad
  | "submit_buy" => match rats? args with
      | some [a, b, c] => showExcept showBroker (submitBuyDecision a b c) | _ => bad
  | "submit_sell" => match rats? args with
      | some [a, b, c] => showExcept showBroker (submitSellDecision a b c) | _ => bad
  | "buy_at_market" => match rats? args with
      | some [a, b] => showExcept showApi (buyAtMarket a b) | _ => bad
  | "sell_at_market" => match rats? args with
      | some [a, b] => showExcept showApi (sellAtMarket a b) | _ => bad
  | "buy_at" => match rats? args with
      | some [a, b] => showExcept showApi (buyAt a b) | _ => bad
  | "sell_at" => match rats? args with
      | some [a, b] => showExcept showApi (sellAt a b) | _ => bad
  | "start_profit_at" => match args with
      | [s, q, p, c] => match parseSide? s, rats? [q, p, c] with
        | some s, some [q, p, c] => showExcept showApi (startProfitAt s q p c) | _, _ => bad
      | _ => bad
  | "reduce_position_at" => match args with
      | [q, p, c, t] => match rats? [q, p, c], parsePosType? t with
        | some [q, p, c], some t => showExcept showApi (reducePositionAt q p c t) | _, _ => bad
      | _ => bad
  | "tf_minutes" => match args with
      | [t] => match Timeframe.ofStr? t with
        | some t => (match tfMinutesTable.lookup t with | some n => s!"ok {n}" | none => "err InvalidTimeframe")
        | none => "err InvalidTimeframe"
      | _ => bad
  | "anchor_timeframe" => match args with
      | [t] => match Timeframe.ofStr? t with
        | some t => (match anchorTable.lookup t with | some n => "ok " ++ n.str | none => "err KeyError")
        | none => "err KeyError"
      | _ => bad
  | _ => bad

end Driver.Pure
