/-
  Driver/Sess.lean — line protocol for the session-state model (Jesse/Session.lean)
    sess <nfirst> <exchange>* (C <exchange> <spot|futures> <leverage> <isolated 0|1> <fee> <balance> <warmup> <aborts 0|1>)*
  → per call: kind leverage isolated fee balance warmup driver, separated by " ; "
-/
import Jesse.Wire
import Jesse.Session

namespace Driver.Sess
open Jesse Jesse.Wire Jesse.Acc Jesse.Sess

def parseCalls : List String → Option (List Args)
  | [] => some []
  | "C" :: ex :: k :: lev :: iso :: fee :: bal :: wu :: ab :: rest => do
    let ex ← ex.toNat?
    let kind ← (if k = "spot" then some Kind.spot else if k = "futures" then some Kind.futures else none)
    let lev ← lev.toNat?
    let fee ← parseRat? fee
    let bal ← parseRat? bal
    let wu ← wu.toNat?
    let more ← parseCalls rest
    some (⟨ex, ⟨kind, lev, iso = "1", fee, bal⟩, wu, ab = "1"⟩ :: more)
  | _ => none

def showEff (e : Eff) : String :=
  s!"{if e.kind = Kind.spot then "spot" else "futures"} {e.leverage} {if e.isolated then 1 else 0} {showRat e.fee} {showRat e.balance} {e.warmup} {if e.driver then 1 else 0}"

def runCalls (g : G) : List Args → List String
  | [] => []
  | a :: rest => let (g', e) := call g a; showEff e :: runCalls g' rest

def handle (args : List String) : String :=
  match args with
  | n :: rest =>
    match n.toNat? with
    | some k =>
      match (rest.take k).mapM String.toNat?, parseCalls (rest.drop k) with
      | some first, some calls => " ; ".intercalate (runCalls (g0 first) calls)
      | _, _ => "bad-op"
    | none => "bad-op"
  | _ => "bad-op"

end Driver.Sess
