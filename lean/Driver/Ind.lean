/-
  Driver/Ind.lean — line protocol for the indicator kernels (C13–C15 correspondence).

    ind <name> <source|-> <np> <param…> <n> <6·n candle numbers: ts o c h l v>

  `source` ∈ close high low open volume hl2 hlc3 ohlc4 for kernels that work on a source series,
  `-` for kernels that read candles.  Multi-field indicators are addressed as `<name>.<field>`.
  Reply: `ok v0 v1 …` (exact rationals, `_` for NaN) or `bad-op`.
-/
import Jesse.Wire
import Jesse.Ind.MA
import Jesse.Ind.Simple
import Jesse.Ind.Osc
import Jesse.Ind.Dir
import Jesse.Ind.Off

namespace Driver.Ind
open Jesse Jesse.Wire Jesse.Ind

def showSer (s : Ser) : String :=
  "ok" ++ String.join (s.map (fun o => match o with | some r => " " ++ showRat r | none => " _"))

def nat? (r : Rat) : Option Nat := if r.den = 1 ∧ 0 ≤ r.num then some r.num.toNat else none

/-- kernels over a source series -/
def srcKernel (name : String) (ps : List Rat) : Option (List Rat → Ser) :=
  match name, ps with
  | "sma", [p] => (nat? p).map (fun p => sma p)
  | "ema", [p] => (nat? p).map (fun p => ema p)
  | "wma", [p] => (nat? p).map (fun p => wma p)
  | "smma", [p] => (nat? p).map (fun p => smma p)
  | "wilders", [p] => (nat? p).map (fun p => wilders p)
  | "rma", [p] => (nat? p).map (fun p => rma p)
  | "dema", [p] => (nat? p).map (fun p => dema p)
  | "tema", [p] => (nat? p).map (fun p => tema p)
  | "trima", [p] => (nat? p).map (fun p => trima p)
  | "roc", [p] => (nat? p).map (fun p => roc p)
  | "mom", [p] => (nat? p).map (fun p => mom p)
  | "rsi", [p] => (nat? p).map (fun p => rsi p)
  | "macd.macd", [f, sl, _g] => do let f ← nat? f; let sl ← nat? sl; pure (fun xs => (macdLine f sl xs).map some)
  | "macd.signal", [f, sl, g] => do let f ← nat? f; let sl ← nat? sl; let g ← nat? g; pure (fun xs => (macdSignal f sl g xs).map some)
  | "macd.hist", [f, sl, g] => do let f ← nat? f; let sl ← nat? sl; let g ← nat? g; pure (fun xs => (macdHist f sl g xs).map some)
  | "stddev", [p, nb] => (nat? p).map (fun p => stddev sqrtNewton p nb)
  | "var", [p, nb] => (nat? p).map (fun p => var p nb)
  | "bollinger_bands.upperband", [p, du, _dd] => (nat? p).map (fun p => bbUpper sqrtNewton p du)
  | "bollinger_bands.middleband", [p, _du, _dd] => (nat? p).map (fun p => bbMiddle p)
  | "bollinger_bands.lowerband", [p, _du, dd] => (nat? p).map (fun p => bbLower sqrtNewton p dd)
  | "er", [p] => (nat? p).map (fun p => er p)
  | "mab.upperband", [fp, sp, du, _dd] => do let fp ← nat? fp; let sp ← nat? sp; pure (mabUpper sqrtNewton fp sp du)
  | "mab.middleband", [fp, _sp, _du, _dd] => do let fp ← nat? fp; pure (mabMiddle fp)
  | "mab.lowerband", [fp, sp, _du, dd] => do let fp ← nat? fp; let sp ← nat? sp; pure (mabLower sqrtNewton fp sp dd)
  | _, _ => none

/-- kernels over candles -/
def cndKernel (name : String) (ps : List Rat) : Option (List Candle → Ser) :=
  match name, ps with
  | "avgprice", [] => some avgprice
  | "medprice", [] => some medprice
  | "typprice", [] => some typprice
  | "wclprice", [] => some wclprice
  | "obv", [] => some obv
  | "trange", [] => some trange
  | "atr", [p] => (nat? p).map (fun p => atr p)
  | "willr", [p] => (nat? p).map (fun p => willr p)
  | "donchian.upperband", [p] => (nat? p).map (fun p => donchianUpper p)
  | "donchian.middleband", [p] => (nat? p).map (fun p => donchianMiddle p)
  | "donchian.lowerband", [p] => (nat? p).map (fun p => donchianLower p)
  | "stoch.k", [fk, sk, _sd] => do let fk ← nat? fk; let sk ← nat? sk; pure (stochK fk sk)
  | "stoch.d", [fk, sk, sd] => do let fk ← nat? fk; let sk ← nat? sk; let sd ← nat? sd; pure (stochD fk sk sd)
  | "stochf.k", [fk, _fd] => do let fk ← nat? fk; pure (stochfK fk)
  | "stochf.d", [fk, fd] => do let fk ← nat? fk; let fd ← nat? fd; pure (stochfD fk fd)
  | "cci", [p] => (nat? p).map (fun p => cci p)
  | "mfi", [p] => (nat? p).map (fun p => mfi p)
  | "dm.plus", [p] => (nat? p).map (fun p => dmPlus p)
  | "dm.minus", [p] => (nat? p).map (fun p => dmMinus p)
  | "di.plus", [p] => (nat? p).map (fun p => diPlus p)
  | "di.minus", [p] => (nat? p).map (fun p => diMinus p)
  | "dx.adx", [dl, sm] => do let dl ← nat? dl; let sm ← nat? sm; pure (fun cs => (dxAdx dl sm cs).map some)
  | "dx.plusDI", [dl, _sm] => do let dl ← nat? dl; pure (fun cs => (dxPlusDI dl cs).map some)
  | "dx.minusDI", [dl, _sm] => do let dl ← nat? dl; pure (fun cs => (dxMinusDI dl cs).map some)
  | "adx", [p] => (nat? p).map (fun p => adx p)
  | "emd.upperband", [_p, fr, a, b] => some (emdUpper fr a b)
  | "emd.middleband", [p, _fr, a, b] => (nat? p).map (fun p => emdMiddle p a b)
  | "emd.lowerband", [_p, fr, a, b] => some (emdLower fr a b)
  | "lrsi", [al] => some (lrsi al)
  | "minmax.is_min", [o] => (nat? o).map (fun o => minmaxIsMin o)
  | "minmax.is_max", [o] => (nat? o).map (fun o => minmaxIsMax o)
  | "minmax.last_min", [o] => (nat? o).map (fun o => minmaxLastMin o)
  | "minmax.last_max", [o] => (nat? o).map (fun o => minmaxLastMax o)
  | _, _ => none

/-- kernels that read candles AND a source series -/
def mixKernel (name : String) (ps : List Rat) : Option (Source → List Candle → Ser) :=
  match name, ps with
  | "keltner.upperband", [p, m] => (nat? p).map (fun p => keltnerUpper p m)
  | "keltner.middleband", [p, _m] => (nat? p).map (fun p => keltnerMiddle p)
  | "keltner.lowerband", [p, m] => (nat? p).map (fun p => keltnerLower p m)
  | _, _ => none

def handle (args : List String) : String :=
  match args with
  | name :: src :: np :: rest =>
    match np.toNat? with
    | none => "bad-op"
    | some np =>
      match (rest.take np).mapM parseRat?, (rest.drop np) with
      | some ps, _n :: vals =>
        match parseCandles? vals with
        | none => "bad-op"
        | some cs =>
          if src = "-" then
            match cndKernel name ps with
            | some K => showSer (K cs)
            | none => "bad-op"
          else
            match Source.ofStr? src, srcKernel name ps, mixKernel name ps with
            | some s, some K, _ => showSer (K (source s cs))
            | some s, none, some K => showSer (K s cs)
            | _, _, _ => "bad-op"
      | _, _ => "bad-op"
  | _ => "bad-op"

end Driver.Ind
