/-
  Driver/Main.lean — line-protocol driver: one request line in, one reply line out.
  Run with `lake env lean --run Driver/Main.lean < ops.txt`.
-/
import Driver.Pure
import Driver.Dna
import Driver.DynArr
import Driver.Ind
import Driver.Metrics
import Driver.StoreDrv
import Driver.Acct
import Driver.Eng
import Driver.Sess

open Jesse

structure DState where
  da : Option Jesse.DynArray := none
  acc : Option Jesse.Acc.World := none

def step (s : DState) (line : String) : DState × String :=
  let toks := (line.trimAscii.toString.splitOn " ").filter (· ≠ "")
  match toks with
  | "call" :: fn :: args => (s, Driver.Pure.call fn args)
  | "dna" :: args => (s, Driver.Dna.handle args)
  | "fa" :: args => (s, Driver.StoreDrv.handleFa args)
  | "st" :: args => (s, Driver.StoreDrv.handleSt args)
  | "eng" :: args => (s, Driver.Eng.handle args)
  | "sess" :: args => (s, Driver.Sess.handle args)
  | "acc" :: args => let (d, o) := Driver.Acct.handle s.acc args; ({ s with acc := d }, o)
  | "da" :: args => let (d, o) := Driver.DynArr.handle s.da args; ({ s with da := d }, o)
  | "ind" :: args => (s, Driver.Ind.handle args)
  | "mt" :: args => (s, Driver.Metrics.handle args)
  | [] => (s, "")
  | _ => (s, "bad-op")

partial def loop (h : IO.FS.Stream) (out : IO.FS.Stream) (s : DState) : IO Unit := do
  let line ← h.getLine
  if line.isEmpty then return ()
  let (s', o) := step s line
  out.putStrLn o
  loop h out s'

def main : IO Unit := do
  let stdin ← IO.getStdin
  let stdout ← IO.getStdout
  loop stdin stdout {}
  stdout.flush
