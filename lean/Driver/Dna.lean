/-
  Driver/Dna.lean — `dna dna_to_hp …` and `dna prepare …` (hand models of Jesse/Dna.lean)
-/
import Jesse.Wire
import Jesse.Dna
import Driver.Pure

namespace Driver.Dna
open Jesse Jesse.Wire Jesse.Gen Jesse.Dna

/-- consume `k` declarations `(type min max [default])` from a token list -/
def takeDecls (withDefault : Bool) : Nat → List String → Option (List (HpDecl × Rat) × List String)
  | 0, xs => some ([], xs)
  | k + 1, xs =>
    if withDefault then
      match xs with
      | t :: mn :: mx :: df :: rest => do
          let t ← Driver.Pure.parseHpType? t; let mn ← parseRat? mn; let mx ← parseRat? mx; let df ← parseRat? df
          let (ds, r) ← takeDecls withDefault k rest
          some (({ type := t, min := mn, max := mx }, df) :: ds, r)
      | _ => none
    else
      match xs with
      | t :: mn :: mx :: rest => do
          let t ← Driver.Pure.parseHpType? t; let mn ← parseRat? mn; let mx ← parseRat? mx
          let (ds, r) ← takeDecls withDefault k rest
          some (({ type := t, min := mn, max := mx }, 0) :: ds, r)
      | _ => none

def takeNats : Nat → List String → Option (List Nat × List String)
  | 0, xs => some ([], xs)
  | k + 1, x :: rest => do
      let n ← x.toNat?
      let (ns, r) ← takeNats k rest
      some (n :: ns, r)
  | _, _ => none

def takeRats : Nat → List String → Option (List Rat × List String)
  | 0, xs => some ([], xs)
  | k + 1, x :: rest => do
      let n ← parseRat? x
      let (ns, r) ← takeRats k rest
      some (n :: ns, r)
  | _, _ => none

def showRats (xs : List Rat) : String := " ".intercalate (xs.map showRat)

def showHp : Hp → String
  | none => "none"
  | some vs => "[" ++ showRats vs ++ "]"

def takeRoutes : Nat → List String → Option (List StratDecl × List String)
  | 0, xs => some ([], xs)
  | n + 1, k :: rest => do
      let k ← k.toNat?
      let (ds, r1) ← takeDecls true k rest
      match r1 with
      | m :: r2 => do
          let m ← m.toNat?
          let (gs, r3) ← takeNats m r2
          let (more, r4) ← takeRoutes n r3
          some ({ decls := ds.map (·.1), defaults := ds.map (·.2), dna := gs } :: more, r4)
      | _ => none
  | _, _ => none

def handle (args : List String) : String :=
  match args with
  | "dna_to_hp" :: k :: rest =>
    (match k.toNat? with
     | some k => (match takeDecls false k rest with
        | some (ds, genes) => (match genes.mapM String.toNat? with
          | some gs => showExcept showRats (dnaToHp (ds.map (·.1)) gs)
          | none => "bad-op")
        | none => "bad-op")
     | none => "bad-op")
  | "prepare" :: "none" :: n :: rest =>
    (match n.toNat? with
     | some n => (match takeRoutes n rest with
        | some (rs, []) => showExcept (fun hs => " ".intercalate (hs.map showHp)) (prepareRoutes none rs)
        | _ => "bad-op")
     | none => "bad-op")
  | "prepare" :: "some" :: m :: rest =>
    (match m.toNat? with
     | some m => (match takeRats m rest with
        | some (vs, n :: rest2) => (match n.toNat? with
          | some n => (match takeRoutes n rest2 with
            | some (rs, []) => showExcept (fun hs => " ".intercalate (hs.map showHp)) (prepareRoutes (some vs) rs)
            | _ => "bad-op")
          | none => "bad-op")
        | _ => "bad-op")
     | none => "bad-op")
  | _ => "bad-op"

end Driver.Dna
