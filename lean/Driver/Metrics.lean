/-
  Driver/Metrics.lean — line protocol for the metrics model (after the `mt` token).
  `mt trades <starting_balance> <n> (<pnl> <long|short> <fee> <holding>)*`
  `mt equity_samples <n_minutes> <chunk|step>`     (sampled loop indices of the fast / step simulator)
  `mt chunk <timeframe>*`                          (the fast simulator's chunk size for these route timeframes)
  `mt max_drawdown <balance>*`                     (value in %, `nan` below two balances)
  `mt returns <balance>*`                          (rational ingredients of the ratio helpers)
  `mt futures_sample <wallet> <k> (<0|1 open> <pnl>)*`
  `mt spot_sample <free_quote> <k> (<reserved_quote> <position_value>)*`
  Every reply is one line; rationals are exact (`Jesse.Wire.showRat`), NaN is `nan`.
-/
import Jesse.Wire
import Jesse.Metrics

namespace Driver.Metrics
open Jesse Jesse.Wire Jesse.Metrics

def showOpt : Option Rat → String
  | some r => showRat r
  | none => "nan"

def parseType? : String → Option TradeType
  | "long" => some .long | "short" => some .short | _ => none

def parseTrades? : List String → Option (List Trade)
  | [] => some []
  | p :: t :: f :: h :: rest => do
      let p ← parseRat? p
      let t ← parseType? t
      let f ← parseRat? f
      let h ← parseRat? h
      let tl ← parseTrades? rest
      some (⟨p, t, f, h⟩ :: tl)
  | _ => none

def showReport (r : Report) : String :=
  s!"ok total={r.total} winners={r.totalWinning} losers={r.totalLosing} win_rate={showRat r.winRate} " ++
  s!"ratio_avg_win_loss={showOpt r.ratioAvgWinLoss} longs_count={r.longsCount} " ++
  s!"longs_percentage={showRat r.longsPercentage} shorts_percentage={showRat r.shortsPercentage} " ++
  s!"shorts_count={r.shortsCount} fee={showRat r.fee} net_profit={showRat r.netProfit} " ++
  s!"net_profit_percentage={showRat r.netProfitPercentage} average_win={showOpt r.averageWin} " ++
  s!"average_loss={showOpt r.averageLoss} expectancy={showRat r.expectancy} " ++
  s!"expectancy_percentage={showRat r.expectancyPercentage} " ++
  s!"expected_net_profit_every_100_trades={showRat r.expectedNetProfitEvery100} " ++
  s!"average_holding_period={showOpt r.averageHoldingPeriod} " ++
  s!"average_winning_holding_period={showOpt r.averageWinningHoldingPeriod} " ++
  s!"average_losing_holding_period={showOpt r.averageLosingHoldingPeriod} " ++
  s!"gross_profit={showRat r.grossProfit} gross_loss={showRat r.grossLoss} " ++
  s!"streak_win={r.winningStreak} streak_lose={r.losingStreak} " ++
  s!"largest_losing_trade={showRat r.largestLosingTrade} largest_winning_trade={showRat r.largestWinningTrade} " ++
  s!"current={r.currentStreak}"

def showNats (l : List Nat) : String := "[" ++ " ".intercalate (l.map toString) ++ "]"

def parseFut? : List String → Option (List FutPos)
  | [] => some []
  | o :: p :: rest => do
      let o ← parseBool? o
      let p ← parseRat? p
      let tl ← parseFut? rest
      some (⟨o, p⟩ :: tl)
  | _ => none

def parseSpot? : List String → Option (List SpotRoute)
  | [] => some []
  | r :: v :: rest => do
      let r ← parseRat? r
      let v ← parseRat? v
      let tl ← parseSpot? rest
      some (⟨r, v⟩ :: tl)
  | _ => none

def handle (args : List String) : String :=
  match args with
  | "trades" :: sb :: n :: rest =>
    match parseRat? sb, n.toNat?, parseTrades? rest with
    | some sb, some n, some ts =>
      if ts.length ≠ n then "bad-op" else
      match trades sb ts with
      | none => "ok empty total=0 win_rate=0 net_profit_percentage=0"
      | some r => showReport r
    | _, _, _ => "bad-op"
  | ["equity_samples", n, "step"] =>
    match n.toNat? with
    | some n => s!"ok count={stepSampleCount n} idx={showNats (stepSampleIdx n)}"
    | none => "bad-op"
  | ["equity_samples", n, c] =>
    match n.toNat?, c.toNat? with
    | some n, some c =>
      if c = 0 then "bad-op" else s!"ok count={fastSampleCount n c} idx={showNats (fastSampleIdx n c)}"
    | _, _ => "bad-op"
  | "chunk" :: tfs =>
    match tfs.mapM Timeframe.ofStr? with
    | some ts => s!"ok {chunkOf ts}"
    | none => "bad-op"
  | "max_drawdown" :: bs =>
    match bs.mapM parseRat? with
    | some bs => "ok " ++ showOpt (maxDrawdownPct bs)
    | none => "bad-op"
  | "returns" :: bs =>
    match bs.mapM parseRat? with
    | some bs =>
      let r := pctChange bs
      s!"ok n={r.length} mean={showOpt (retMean r)} var={showOpt (retVar r)} " ++
      s!"downside_sq={showRat (downsideSq r)} omega={showOpt (omega r)} growth={showRat (growth r)} " ++
      s!"years={showRat (years r)} calmar_dd={showOpt (calmarDrawdown r)}"
    | none => "bad-op"
  | "futures_sample" :: w :: k :: rest =>
    match parseRat? w, k.toNat?, parseFut? rest with
    | some w, some k, some ps => if ps.length ≠ k then "bad-op" else "ok " ++ showRat (futuresSample w ps)
    | _, _, _ => "bad-op"
  | "spot_sample" :: f :: k :: rest =>
    match parseRat? f, k.toNat?, parseSpot? rest with
    | some f, some k, some rs => if rs.length ≠ k then "bad-op" else "ok " ++ showRat (spotSample f rs)
    | _, _, _ => "bad-op"
  | _ => "bad-op"

end Driver.Metrics
