/-
  Driver/Acct.lean — line protocol for the accounts model (Jesse/Accounts.lean).
  `acc init <futures|spot> <balance> <fee> <leverage> <nsym>` · `acc price <sym> <p>` ·
  `acc submit <sym> <buy|sell> <MARKET|LIMIT|STOP> <qty> <price> <0|1>` · `acc execute <id>` ·
  `acc cancel <id>` · `acc cancel_all <sym>` · `acc update_active <sym>`.
  Every reply carries the full abstract state.
-/
import Jesse.Wire
import Jesse.Accounts
import Jesse.TradeLog

namespace Driver.Acct
open Jesse Jesse.Wire Jesse.Acc

def showOpt (o : Option Rat) : String := match o with | some r => showRat r | none => "_"

def showStatus : OrderStatus → String
  | .active => "A" | .executed => "E" | .canceled => "C"

def showRowsSorted (rows : List (Rat × Rat)) : String :=
  let strs := rows.map (fun r => showRat r.1 ++ "@" ++ showRat r.2)
  "{" ++ ",".intercalate strs ++ "}"

def showTrade (t : Trade) : String :=
  let ty := match t.type with | some .long => "long" | some .short => "short" | some .close => "close" | none => "_"
  ty ++ ":" ++ ",".intercalate (t.orders.map toString)

def showWorld (w : World) : String :=
  let n := w.pos.length
  let per := (List.range n).map (fun i =>
    let p := Acc.getD w.pos i
    s!"pos{i}={showRat p.qty}@{showOpt p.entry} pnl{i}={showRat p.pnl}" ++
    (match w.kind with
     | .futures => s!" buy{i}={showRat (rowsSum (Acc.getD w.buyRows i))} sell{i}={showRat (rowsSum (Acc.getD w.sellRows i))}"
     | .spot => s!" base{i}={showRat (Acc.getD w.base i)} stop{i}={showRat (Acc.getD w.stopSum i)} limit{i}={showRat (Acc.getD w.limitSum i)}") ++
    s!" active{i}=[{",".intercalate ((Acc.getD w.active i).map toString)}] temp{i}={showTrade (Acc.getD w.temp i)}")
  s!"wallet={showRat w.wallet}" ++
  (match w.kind with | .futures => s!" margin={showRat (availableMargin w)}" | .spot => "") ++
  " " ++ " ".intercalate per ++
  " st=" ++ "".intercalate (w.orders.map (fun o => showStatus o.status)) ++
  " trades=[" ++ ";".intercalate (w.trades.map showTrade) ++ "]" ++
  s!" TP {w.trades.length}" ++ "".intercalate (w.trades.map (fun t =>
    if qtySum t.buys = 0 ∨ qtySum t.sells = 0 then " nan" else " " ++ showRat (Trade.pnl w.fee t)))

def handle (st : Option World) (args : List String) : Option World × String :=
  match args with
  | ["init", k, b, f, l, n] =>
    (match (if k = "futures" then some Kind.futures else if k = "spot" then some Kind.spot else none),
           parseRat? b, parseRat? f, parseRat? l, n.toNat? with
     | some k, some b, some f, some l, some n => let w := Acc.init k b f l n; (some w, "ok " ++ showWorld w)
     | _, _, _, _, _ => (st, "bad-op"))
  | cmd :: rest =>
    match st with
    | none => (st, "bad-op")
    | some w =>
      match cmd, rest with
      | "price", [s, p] => (match s.toNat?, parseRat? p with
          | some s, some p => let w' := setPrice w s p; (some w', "ok " ++ showWorld w')
          | _, _ => (st, "bad-op"))
      | "submit", [s, sd, ty, q, p, ro] =>
          (match s.toNat?, parseSide? sd, parseOrderType? ty, parseRat? q, parseRat? p, parseBool? ro with
           | some s, some sd, some ty, some q, some p, some ro =>
             (match submit w s sd ty q p ro with
              | .ok w' => (some w', "ok " ++ showWorld w')
              | .error (e, w') => (some w', "err " ++ e.name ++ " " ++ showWorld w'))
           | _, _, _, _, _, _ => (st, "bad-op"))
      | "execute", [i] => (match i.toNat? with
          | some i => let w' := execute w i; (some w', "ok " ++ showWorld w') | none => (st, "bad-op"))
      | "cancel", [i] => (match i.toNat? with
          | some i => let w' := cancel w i; (some w', "ok " ++ showWorld w') | none => (st, "bad-op"))
      | "cancel_all", [s] => (match s.toNat? with
          | some s => let w' := cancelAll w s; (some w', "ok " ++ showWorld w') | none => (st, "bad-op"))
      | "update_active", [s] => (match s.toNat? with
          | some s => let w' := updateActive w s; (some w', "ok " ++ showWorld w') | none => (st, "bad-op"))
      | _, _ => (st, "bad-op")
  | [] => (st, "bad-op")

end Driver.Acct
